C = 'verifier/crl/crl.go'
VARIANTS = [
 dict(name='fields-swapped-set', file=C, expect='flagged(pairing/set)',
      find='\tcontent := fileCacheContent{\n\t\tBaseCRL: bundle.BaseCRL.Raw,\n\t}\n\tif bundle.DeltaCRL != nil {\n\t\tcontent.DeltaCRL = bundle.DeltaCRL.Raw\n\t}',
      replace='\tcontent := fileCacheContent{\n\t\tBaseCRL: bundle.BaseCRL.Raw,\n\t}\n\tif bundle.DeltaCRL != nil {\n\t\tcontent.DeltaCRL = bundle.BaseCRL.Raw\n\t}'),
 dict(name='fields-swapped-get', file=C, expect='flagged(pairing/get)',
      find='\t\tbundle.DeltaCRL, err = x509.ParseRevocationList(content.DeltaCRL)', replace='\t\tbundle.DeltaCRL, err = x509.ParseRevocationList(content.BaseCRL)'),
 dict(name='same-json-name', file=C, expect='flagged(pairing/json-names)',
      find='DeltaCRL []byte `json:"deltaCRL,omitempty"`', replace='DeltaCRL []byte `json:"baseCRL,omitempty"`'),
 dict(name='delta-expiry-dropped', file=C, expect='flagged(get/delta-expiry)',
      find='\tif bundle.DeltaCRL != nil {\n\t\tif err := checkExpiry(ctx, bundle.DeltaCRL.NextUpdate); err != nil {\n\t\t\treturn nil, fmt.Errorf("check DeltaCRL expiry failed: %w", err)\n\t\t}\n\t}\n', replace=''),
 dict(name='base-expiry-only-without-delta', file=C, expect='flagged(get/base-expiry)',
      find='\tif err := checkExpiry(ctx, bundle.BaseCRL.NextUpdate); err != nil {\n\t\treturn nil, fmt.Errorf("check BaseCRL expiry failed: %w", err)\n\t}',
      replace='\tif bundle.DeltaCRL == nil {\n\t\tif err := checkExpiry(ctx, bundle.BaseCRL.NextUpdate); err != nil {\n\t\t\treturn nil, fmt.Errorf("check BaseCRL expiry failed: %w", err)\n\t\t}\n\t}'),
 dict(name='expiry-reversed', file=C, expect='flagged(expiry/)',
      find='\tif time.Now().After(nextUpdate) {', replace='\tif time.Now().Before(nextUpdate) {'),
 dict(name='zero-next-update-ok', file=C, expect='flagged(expiry/zero-next-update)',
      find='\tif nextUpdate.IsZero() {\n\t\treturn errors.New("crl bundle retrieved from file cache does not contain valid NextUpdate")\n\t}\n', replace=''),
 dict(name='expired-is-error', file=C, expect='flagged(expiry/expired-is-miss)',
      find='\t\treturn corecrl.ErrCacheMiss\n\t}\n\treturn nil\n}', replace='\t\treturn errors.New("expired")\n\t}\n\treturn nil\n}'),
 dict(name='url-path-escaped', file=C, expect='flagged(key/sha256-of-url)',
      find='\thash := sha256.Sum256([]byte(url))\n\treturn hex.EncodeToString(hash[:])', replace='\t_, _ = sha256.Size, hex.EncodeToString\n\treturn strings.ReplaceAll(url, "/", "_")',
      edits=[(C, '\t"path/filepath"\n', '\t"path/filepath"\n\t"strings"\n')]),
 dict(name='url-host-dir', file=C, expect='flagged(confinement/)',
      find='contentBytes, err := os.ReadFile(filepath.Join(c.root, c.fileName(url)))', replace='contentBytes, err := os.ReadFile(filepath.Join(c.root, filepath.Base(url), c.fileName(url)))'),
 dict(name='delta-parse-error-ignored', file=C, expect='flagged(get/delta-parse-error)',
      find='\t\tif err != nil {\n\t\t\treturn nil, fmt.Errorf("failed to parse delta CRL of file retrieved from file cache: %w", err)\n\t\t}', replace='\t\tif err != nil {\n\t\t\tbundle.DeltaCRL = nil\n\t\t}'),
 dict(name='nil-base-stored', file=C, expect='flagged(set/nil-base)',
      find='\tif bundle.BaseCRL == nil {\n\t\treturn errors.New("failed to store crl bundle in file cache: bundle BaseCRL cannot be nil")\n\t}\n', replace=''),
 dict(name='delta-dropped-on-set', file=C, expect='flagged(set/delta-stored-when-present)',
      find='\tif bundle.DeltaCRL != nil {\n\t\tcontent.DeltaCRL = bundle.DeltaCRL.Raw\n\t}', replace='\tif bundle.DeltaCRL != nil && len(bundle.DeltaCRL.Raw) < 1024 {\n\t\tcontent.DeltaCRL = bundle.DeltaCRL.Raw\n\t}'),
 # benign
 dict(name='benign-expiry-before-form', file=C, expect='silent',
      find='\tif time.Now().After(nextUpdate) {', replace='\tif nextUpdate.Before(time.Now()) {'),
 dict(name='benign-log', file=C, expect='silent',
      find='\tlogger.Debugf("Storing crl bundle to file cache with key %q ...", url)\n', replace='\tlogger.Infof("Storing crl bundle for %q", url)\n'),
]

# the locals form of Get / Set (values built in locals, the bundle / entry as one composite literal) and its mutants
GET_OLD = '\tvar bundle corecrl.Bundle\n\tbundle.BaseCRL, err = x509.ParseRevocationList(content.BaseCRL)\n\tif err != nil {\n\t\treturn nil, fmt.Errorf("failed to parse base CRL of file retrieved from file cache: %w", err)\n\t}\n\tif content.DeltaCRL != nil {\n\t\tbundle.DeltaCRL, err = x509.ParseRevocationList(content.DeltaCRL)\n\t\tif err != nil {\n\t\t\treturn nil, fmt.Errorf("failed to parse delta CRL of file retrieved from file cache: %w", err)\n\t\t}\n\t}\n\n\t// check expiry\n\tif err := checkExpiry(ctx, bundle.BaseCRL.NextUpdate); err != nil {\n\t\treturn nil, fmt.Errorf("check BaseCRL expiry failed: %w", err)\n\t}\n\tif bundle.DeltaCRL != nil {\n\t\tif err := checkExpiry(ctx, bundle.DeltaCRL.NextUpdate); err != nil {\n\t\t\treturn nil, fmt.Errorf("check DeltaCRL expiry failed: %w", err)\n\t\t}\n\t}\n\n\treturn &bundle, nil\n'
def get_locals(base_arg='content.BaseCRL', delta_arg='content.DeltaCRL', delta_check=True, lit='BaseCRL: baseCRL, DeltaCRL: deltaCRL', delta_guard='deltaCRL != nil'):
    s = '\tbaseCRL, err := x509.ParseRevocationList(%s)\n\tif err != nil {\n\t\treturn nil, fmt.Errorf("failed to parse base CRL: %%w", err)\n\t}\n\tvar deltaCRL *x509.RevocationList\n\tif content.DeltaCRL != nil {\n\t\tdeltaCRL, err = x509.ParseRevocationList(%s)\n\t\tif err != nil {\n\t\t\treturn nil, fmt.Errorf("failed to parse delta CRL: %%w", err)\n\t\t}\n\t}\n\tif err := checkExpiry(ctx, baseCRL.NextUpdate); err != nil {\n\t\treturn nil, fmt.Errorf("check BaseCRL expiry failed: %%w", err)\n\t}\n' % (base_arg, delta_arg)
    if delta_check:
        s += '\tif %s {\n\t\tif err := checkExpiry(ctx, deltaCRL.NextUpdate); err != nil {\n\t\t\treturn nil, fmt.Errorf("check DeltaCRL expiry failed: %%w", err)\n\t\t}\n\t}\n' % delta_guard
    s += '\treturn &corecrl.Bundle{%s}, nil\n' % lit
    return s
SET_OLD = '\tcontent := fileCacheContent{\n\t\tBaseCRL: bundle.BaseCRL.Raw,\n\t}\n\tif bundle.DeltaCRL != nil {\n\t\tcontent.DeltaCRL = bundle.DeltaCRL.Raw\n\t}\n\tcontentBytes, err := json.Marshal(content)\n'
def set_locals(delta='bundle.DeltaCRL.Raw', lit='BaseCRL: bundle.BaseCRL.Raw, DeltaCRL: deltaRaw'):
    return '\tvar deltaRaw []byte\n\tif bundle.DeltaCRL != nil {\n\t\tdeltaRaw = %s\n\t}\n\tcontentBytes, err := json.Marshal(fileCacheContent{%s})\n' % (delta, lit)
VARIANTS += [
 dict(name='benign-locals-form', file=C, expect='silent', find=GET_OLD, replace=get_locals(), edits=[(C, SET_OLD, set_locals())]),
 dict(name='benign-locals-delta-guard-on-entry', file=C, expect='silent', find=GET_OLD, replace=get_locals(delta_guard='content.DeltaCRL != nil')),
 dict(name='locals-fields-swapped-in-literal', file=C, expect='flagged(pairing/get)', find=GET_OLD, replace=get_locals(lit='BaseCRL: deltaCRL, DeltaCRL: baseCRL')),
 dict(name='locals-delta-parsed-from-base', file=C, expect='flagged(pairing/get)', find=GET_OLD, replace=get_locals(delta_arg='content.BaseCRL')),
 dict(name='locals-delta-expiry-dropped', file=C, expect='flagged(get/delta-expiry)', find=GET_OLD, replace=get_locals(delta_check=False)),
 dict(name='locals-delta-expiry-only-when-base-raw-long', file=C, expect='flagged(get/delta-expiry)', find=GET_OLD, replace=get_locals(delta_guard='deltaCRL != nil && len(content.BaseCRL) > 4096')),
 dict(name='locals-delta-left-out-of-literal', file=C, expect='flagged(pairing/get)', find=GET_OLD, replace=get_locals(lit='BaseCRL: baseCRL')),
 dict(name='locals-set-delta-from-base', file=C, expect='flagged(pairing/set)', find=SET_OLD, replace=set_locals(delta='bundle.BaseCRL.Raw')),
 dict(name='locals-set-swapped-in-literal', file=C, expect='flagged(pairing/set)', find=SET_OLD, replace=set_locals(lit='BaseCRL: deltaRaw, DeltaCRL: bundle.BaseCRL.Raw')),
]

# ---- Get split into helpers: decode + parse in one function, both expiry checks in another (the bundle travels as a pointer)
DEC_OLD = '\tvar content fileCacheContent\n\tif err := json.Unmarshal(contentBytes, &content); err != nil {\n\t\treturn nil, fmt.Errorf("failed to decode file retrieved from file cache: %w", err)\n\t}\n'
BASE_CHK = '\tif err := checkExpiry(ctx, bundle.BaseCRL.NextUpdate); err != nil {\n\t\treturn fmt.Errorf("check BaseCRL expiry failed: %w", err)\n\t}\n'
DELTA_CHK = '\tif bundle.DeltaCRL != nil {\n\t\tif err := checkExpiry(ctx, bundle.DeltaCRL.NextUpdate); err != nil {\n\t\t\treturn fmt.Errorf("check DeltaCRL expiry failed: %w", err)\n\t\t}\n\t}\n'
DELTA_ERR = '\t\tif err != nil {\n\t\t\treturn nil, fmt.Errorf("failed to parse delta CRL of file retrieved from file cache: %w", err)\n\t\t}\n'
def get_helpers(expiry_call='\tif err := checkBundleExpiry(ctx, bundle); err != nil {\n\t\treturn nil, err\n\t}\n', ret='bundle',
                decode='\tif err := json.Unmarshal(contentBytes, &content); err != nil {\n\t\treturn nil, fmt.Errorf("failed to decode file retrieved from file cache: %w", err)\n\t}\n',
                delta_arg='content.DeltaCRL', delta_err=DELTA_ERR, base_chk=BASE_CHK, delta_chk=DELTA_CHK, last='\treturn nil\n'):
    return ('\tbundle, err := decodeBundle(contentBytes)\n\tif err != nil {\n\t\treturn nil, err\n\t}\n' + expiry_call + '\treturn ' + ret + ', nil\n}\n\n'
            + '// decodeBundle decodes the content of a cache file to a crl Bundle\nfunc decodeBundle(contentBytes []byte) (*corecrl.Bundle, error) {\n\tvar content fileCacheContent\n' + decode
            + '\tvar bundle corecrl.Bundle\n\tvar err error\n\tbundle.BaseCRL, err = x509.ParseRevocationList(content.BaseCRL)\n\tif err != nil {\n\t\treturn nil, fmt.Errorf("failed to parse base CRL of file retrieved from file cache: %w", err)\n\t}\n'
            + '\tif content.DeltaCRL != nil {\n\t\tbundle.DeltaCRL, err = x509.ParseRevocationList(' + delta_arg + ')\n' + delta_err + '\t}\n\treturn &bundle, nil\n}\n\n'
            + '// checkBundleExpiry returns nil when neither CRL of bundle has expired\nfunc checkBundleExpiry(ctx context.Context, bundle *corecrl.Bundle) error {\n' + base_chk + delta_chk + last)
GET_TAIL_OLD = DEC_OLD + GET_OLD
VARIANTS += [
 dict(name='benign-get-helpers', file=C, expect='silent', find=GET_TAIL_OLD, replace=get_helpers(),
      why='each gate is decided where it lives; a success of Get contains a complete successful run of each helper'),
 dict(name='benign-get-helpers-delta-check-in-tail-call', file=C, expect='silent', find=GET_TAIL_OLD,
      replace=get_helpers(delta_chk='\tif bundle.DeltaCRL == nil {\n\t\treturn nil\n\t}\n', last='\treturn checkExpiry(ctx, bundle.DeltaCRL.NextUpdate)\n'),
      why='the exit that forwards the delta check reports success only if that check succeeded'),
 dict(name='helpers-tail-call-checks-base-again', file=C, expect='flagged(get/delta-expiry)', find=GET_TAIL_OLD,
      replace=get_helpers(delta_chk='\tif bundle.DeltaCRL == nil {\n\t\treturn nil\n\t}\n', last='\treturn checkExpiry(ctx, bundle.BaseCRL.NextUpdate)\n')),
 dict(name='helpers-delta-expiry-dropped', file=C, expect='flagged(get/delta-expiry)', find=GET_TAIL_OLD, replace=get_helpers(delta_chk='')),
 dict(name='helpers-delta-expiry-only-for-short-base', file=C, expect='flagged(get/delta-expiry)', find=GET_TAIL_OLD,
      replace=get_helpers(delta_chk=DELTA_CHK.replace('bundle.DeltaCRL != nil {', 'bundle.DeltaCRL != nil && len(bundle.BaseCRL.Raw) < 4096 {'))),
 dict(name='helpers-base-expiry-dropped', file=C, expect='flagged(get/base-expiry)', find=GET_TAIL_OLD, replace=get_helpers(base_chk='')),
 dict(name='helpers-expiry-result-ignored', file=C, expect='flagged(get/base-expiry)', find=GET_TAIL_OLD,
      replace=get_helpers(expiry_call='\tif err := checkBundleExpiry(ctx, bundle); err != nil {\n\t\tlogger.Debugf("stale: %v", err)\n\t}\n')),
 dict(name='helpers-expiry-of-rebuilt-bundle', file=C, expect='flagged(get/delta-expiry)', find=GET_TAIL_OLD,
      replace=get_helpers(expiry_call='\tif err := checkBundleExpiry(ctx, &corecrl.Bundle{BaseCRL: bundle.BaseCRL}); err != nil {\n\t\treturn nil, err\n\t}\n')),
 dict(name='helpers-delta-parse-error-ignored', file=C, expect='flagged(get/delta-parse-error)', find=GET_TAIL_OLD,
      replace=get_helpers(delta_err='\t\tif err != nil {\n\t\t\tbundle.DeltaCRL = nil\n\t\t}\n')),
 dict(name='helpers-delta-parsed-from-base', file=C, expect='flagged(pairing/get)', find=GET_TAIL_OLD, replace=get_helpers(delta_arg='content.BaseCRL')),
 dict(name='helpers-decode-error-ignored', file=C, expect='flagged(get/decode-error)', find=GET_TAIL_OLD,
      replace=get_helpers(decode='\t_ = json.Unmarshal(contentBytes, &content)\n')),
 dict(name='helpers-returns-rebuilt-bundle', file=C, expect='flagged(get/returns-parsed-bundle)', find=GET_TAIL_OLD,
      replace=get_helpers(ret='&corecrl.Bundle{BaseCRL: bundle.BaseCRL}')),
]

# ---- the codec as methods: content.toBundle() in Get, newFileCacheContent(bundle) in Set, the expiry helper takes the list
EXP_OLD = 'func checkExpiry(ctx context.Context, nextUpdate time.Time) error {\n\tlogger := log.GetLogger(ctx)\n'
EXP_NEW = 'func checkCRLExpiry(ctx context.Context, crl *x509.RevocationList) error {\n\tlogger := log.GetLogger(ctx)\n\tnextUpdate := crl.NextUpdate\n'
SET_DOC = '// Set stores the CRL bundle in c with url as key.'
def codec_get(recv='content', delta_list='bundle.DeltaCRL', delta_arg='content.DeltaCRL'):
    return ('\tbundle, err := ' + recv + '.toBundle()\n\tif err != nil {\n\t\treturn nil, err\n\t}\n'
            + '\tif err := checkCRLExpiry(ctx, bundle.BaseCRL); err != nil {\n\t\treturn nil, fmt.Errorf("check BaseCRL expiry failed: %w", err)\n\t}\n'
            + '\tif bundle.DeltaCRL != nil {\n\t\tif err := checkCRLExpiry(ctx, ' + delta_list + '); err != nil {\n\t\t\treturn nil, fmt.Errorf("check DeltaCRL expiry failed: %w", err)\n\t\t}\n\t}\n\treturn bundle, nil\n}\n\n'
            + '// toBundle parses the ASN.1 encoded CRLs of content\nfunc (content *fileCacheContent) toBundle() (*corecrl.Bundle, error) {\n\tvar (\n\t\tbundle corecrl.Bundle\n\t\terr    error\n\t)\n'
            + '\tbundle.BaseCRL, err = x509.ParseRevocationList(content.BaseCRL)\n\tif err != nil {\n\t\treturn nil, fmt.Errorf("failed to parse base CRL of file retrieved from file cache: %w", err)\n\t}\n'
            + '\tif content.DeltaCRL != nil {\n\t\tbundle.DeltaCRL, err = x509.ParseRevocationList(' + delta_arg + ')\n' + DELTA_ERR + '\t}\n\treturn &bundle, nil\n')
def codec_ctor(delta_cond='bundle.DeltaCRL != nil', delta_val='bundle.DeltaCRL.Raw', pre_ret='', ret='content'):
    return ('// newFileCacheContent returns the content to be saved for bundle\nfunc newFileCacheContent(bundle *corecrl.Bundle) fileCacheContent {\n'
            + '\tcontent := fileCacheContent{\n\t\tBaseCRL: bundle.BaseCRL.Raw,\n\t}\n' + pre_ret
            + '\tif ' + delta_cond + ' {\n\t\tcontent.DeltaCRL = ' + delta_val + '\n\t}\n\treturn ' + ret + '\n}\n\n' + SET_DOC)
def codec(get=None, ctor=None, marshal='newFileCacheContent(bundle)', exp_new=EXP_NEW):
    return [(C, GET_OLD, get or codec_get()), (C, SET_OLD, '\tcontentBytes, err := json.Marshal(' + marshal + ')\n'), (C, SET_DOC, ctor or codec_ctor()), (C, EXP_OLD, exp_new)]
VARIANTS += [
 dict(name='benign-codec-methods', expect='silent', edits=codec(),
      why='the method parses the fields of the very entry Get decoded (its receiver at the only call); the constructor stores the Raw bytes of the bundle Set was given; the expiry helper reads NextUpdate of the list it is handed'),
 dict(name='codec-delta-expiry-on-base-list', expect='flagged(get/delta-expiry)', edits=codec(get=codec_get(delta_list='bundle.BaseCRL'))),
 dict(name='codec-tobundle-on-partial-entry', expect='flagged(pairing/get)', edits=codec(get=codec_get(recv='(&fileCacheContent{BaseCRL: content.BaseCRL})'))),
 dict(name='codec-tobundle-delta-from-base', expect='flagged(pairing/get)', edits=codec(get=codec_get(delta_arg='content.BaseCRL'))),
 dict(name='codec-zero-next-update-ok', expect='flagged(expiry/zero-next-update)',
      edits=codec() + [(C, '\tif nextUpdate.IsZero() {\n\t\treturn errors.New("crl bundle retrieved from file cache does not contain valid NextUpdate")\n\t}\n', '')]),
 dict(name='codec-expiry-judges-this-update', expect='flagged(get/base-expiry)', edits=codec(exp_new=EXP_NEW.replace('crl.NextUpdate', 'crl.ThisUpdate.Add(7 * 24 * time.Hour)'))),
 dict(name='codec-ctor-delta-from-base', expect='flagged(pairing/set)', edits=codec(ctor=codec_ctor(delta_val='bundle.BaseCRL.Raw'))),
 dict(name='codec-ctor-drops-large-delta', expect='flagged(set/delta-stored-when-present)', edits=codec(ctor=codec_ctor(delta_cond='bundle.DeltaCRL != nil && len(bundle.DeltaCRL.Raw) < 1024'))),
 dict(name='codec-ctor-returns-stale-copy', expect='flagged(set/writes-marshalled-entry)', edits=codec(ctor=codec_ctor(pre_ret='\tsnapshot := content\n', ret='snapshot'))),
 dict(name='codec-ctor-fed-rebuilt-bundle', expect='flagged(pairing/set)', edits=codec(marshal='newFileCacheContent(&corecrl.Bundle{BaseCRL: bundle.BaseCRL})')),
]

# ---- the objects the rules look at are not rewritten behind their back
VARIANTS += [
 dict(name='helpers-expiry-helper-drops-delta', file=C, expect='flagged(pairing/get)', find=GET_TAIL_OLD,
      replace=get_helpers(last='\tbundle.DeltaCRL = nil // only the base CRL is handed out\n\treturn nil\n')),
 dict(name='stored-delta-discarded-before-parse', file=C, expect='flagged(pairing/get)',
      find='\tvar bundle corecrl.Bundle\n\tbundle.BaseCRL, err = x509.ParseRevocationList(content.BaseCRL)\n',
      replace='\tif len(content.DeltaCRL) > 1<<20 {\n\t\tcontent.DeltaCRL = nil\n\t}\n\tvar bundle corecrl.Bundle\n\tbundle.BaseCRL, err = x509.ParseRevocationList(content.BaseCRL)\n'),
 dict(name='codec-entry-patched-after-ctor', expect='flagged(pairing/set)',
      edits=codec()[:1] + [(C, SET_OLD, '\tcontent := newFileCacheContent(bundle)\n\tif len(content.DeltaCRL) > 1<<20 {\n\t\tcontent.DeltaCRL = nil\n\t}\n\tcontentBytes, err := json.Marshal(content)\n')] + codec()[2:]),
]

# ---- the roles of the writer's parameters are read off the writer
VARIANTS += [
 dict(name='benign-writer-params-reordered', expect='silent',
      edits=[('internal/file/file.go', 'func WriteFile(tempDir, path string, content []byte) (writeErr error) {', 'func WriteFile(path, tempDir string, content []byte) (writeErr error) {'),
             (C, 'file.WriteFile(c.root, filepath.Join(c.root, c.fileName(url)), contentBytes)', 'file.WriteFile(filepath.Join(c.root, c.fileName(url)), c.root, contentBytes)')]),
 dict(name='writer-params-reordered-call-not', file='internal/file/file.go', expect='flagged(confinement/Set)',
      find='func WriteFile(tempDir, path string, content []byte) (writeErr error) {', replace='func WriteFile(path, tempDir string, content []byte) (writeErr error) {'),
]

VARIANTS += [
 dict(name='benign-marshal-pointer-to-entry', file=C, expect='silent', find='\tcontentBytes, err := json.Marshal(content)\n', replace='\tcontentBytes, err := json.Marshal(&content)\n',
      why='the encoder reads the entry when it is called, after every field was stored'),
 dict(name='entry-marshalled-before-delta-is-stored', file=C, expect='flagged(set/writes-marshalled-entry)',
      find='\tif bundle.DeltaCRL != nil {\n\t\tcontent.DeltaCRL = bundle.DeltaCRL.Raw\n\t}\n\tcontentBytes, err := json.Marshal(content)\n',
      replace='\tcontentBytes, err := json.Marshal(content)\n\tif bundle.DeltaCRL != nil {\n\t\tcontent.DeltaCRL = bundle.DeltaCRL.Raw\n\t}\n'),
]

# ---- second pass: the encoder in a function Set calls; several bundle objects built in the decoding function and the
# ---- expiry facts stated on the value Get returns; a constructor for the bundle; one error variable for two steps
SET_ENC_OLD = SET_OLD
def enc_helper(call='\tcontentBytes, err := encodeBundle(bundle)\n', body=None, marshal='\treturn json.Marshal(content)\n'):
    if body is None:
        body = '\tvar content fileCacheContent\n\tcontent.BaseCRL = bundle.BaseCRL.Raw\n\tif bundle.DeltaCRL != nil {\n\t\tcontent.DeltaCRL = bundle.DeltaCRL.Raw\n\t}\n'
    return [(C, SET_ENC_OLD, call),
            (C, SET_DOC, '// encodeBundle returns the content to be saved in the cache for bundle\nfunc encodeBundle(bundle *corecrl.Bundle) ([]byte, error) {\n' + body + marshal + '}\n\n' + SET_DOC)]
VARIANTS += [
 dict(name='benign-encode-helper', expect='silent', edits=enc_helper(),
      why='what is written is result 0 of the json.Marshal call the helper forwards; the helper reports success only if that call did'),
 dict(name='benign-encode-helper-checks-error-itself', expect='silent',
      edits=enc_helper(marshal='\tb, err := json.Marshal(content)\n\tif err != nil {\n\t\treturn nil, fmt.Errorf("encode: %w", err)\n\t}\n\treturn b, nil\n')),
 dict(name='encode-helper-swallows-marshal-error', expect='flagged(set/marshal-error)',
      edits=enc_helper(marshal='\tb, _ := json.Marshal(content)\n\treturn b, nil\n')),
 dict(name='encode-helper-error-ignored-by-set', expect='flagged(set/marshal-error)', edits=enc_helper(call='\tcontentBytes, _ := encodeBundle(bundle)\n\tvar err error\n')),
 dict(name='encode-helper-marshals-base-only-copy', expect='flagged(pairing/set)',
      edits=enc_helper(marshal='\treturn json.Marshal(fileCacheContent{BaseCRL: content.BaseCRL})\n')),
 dict(name='encode-helper-delta-from-base', expect='flagged(pairing/set)',
      edits=enc_helper(body='\tvar content fileCacheContent\n\tcontent.BaseCRL = bundle.BaseCRL.Raw\n\tif bundle.DeltaCRL != nil {\n\t\tcontent.DeltaCRL = bundle.BaseCRL.Raw\n\t}\n')),
 dict(name='encode-helper-drops-large-delta', expect='flagged(set/delta-stored-when-present)',
      edits=enc_helper(body='\tvar content fileCacheContent\n\tcontent.BaseCRL = bundle.BaseCRL.Raw\n\tif bundle.DeltaCRL != nil && len(bundle.DeltaCRL.Raw) < 4096 {\n\t\tcontent.DeltaCRL = bundle.DeltaCRL.Raw\n\t}\n')),
 dict(name='encode-helper-returns-a-prefix', expect='flagged(set/writes-marshalled-entry)',
      edits=enc_helper(marshal='\tb, err := json.Marshal(content)\n\tif err != nil {\n\t\treturn nil, err\n\t}\n\treturn b[:len(b)&^511], nil\n')),
]
def get_two_literals(no_delta_guard='content.DeltaCRL == nil', first='&corecrl.Bundle{BaseCRL: baseCRL}', second='&corecrl.Bundle{BaseCRL: baseCRL, DeltaCRL: deltaCRL}',
                     delta_arg='content.DeltaCRL', base_chk=BASE_CHK, delta_chk='\tif bundle.DeltaCRL == nil {\n\t\treturn nil\n\t}\n\tif err := checkExpiry(ctx, bundle.DeltaCRL.NextUpdate); err != nil {\n\t\treturn fmt.Errorf("check DeltaCRL expiry failed: %w", err)\n\t}\n',
                     expiry_arg='bundle', ret='bundle', extra=''):
    return ('\tbundle, err := decodeBundle(contentBytes)\n\tif err != nil {\n\t\treturn nil, err\n\t}\n\tif err := checkBundleExpiry(ctx, ' + expiry_arg + '); err != nil {\n\t\treturn nil, err\n\t}\n\treturn ' + ret + ', nil\n}\n\n'
            + '// decodeBundle decodes the content of a cache file to a crl Bundle\nfunc decodeBundle(contentBytes []byte) (*corecrl.Bundle, error) {\n' + DEC_OLD
            + '\tbaseCRL, err := x509.ParseRevocationList(content.BaseCRL)\n\tif err != nil {\n\t\treturn nil, fmt.Errorf("failed to parse base CRL of file retrieved from file cache: %w", err)\n\t}\n'
            + '\tif ' + no_delta_guard + ' {\n\t\treturn ' + first + ', nil\n\t}\n'
            + '\tdeltaCRL, err := x509.ParseRevocationList(' + delta_arg + ')\n\tif err != nil {\n\t\treturn nil, fmt.Errorf("failed to parse delta CRL of file retrieved from file cache: %w", err)\n\t}\n'
            + '\treturn ' + second + ', nil\n}\n\n' + extra
            + '// checkBundleExpiry returns nil when neither CRL of bundle has expired\nfunc checkBundleExpiry(ctx context.Context, bundle *corecrl.Bundle) error {\n' + base_chk + delta_chk + '\treturn nil\n')
CTOR = '// newBundle builds the bundle handed out\nfunc newBundle(base, delta *x509.RevocationList) *corecrl.Bundle {\n\treturn &corecrl.Bundle{BaseCRL: base, DeltaCRL: delta}\n}\n\n'
def get_ctor(args='baseCRL, deltaCRL', ctor=CTOR):
    return ('\tbundle, err := decodeBundle(contentBytes)\n\tif err != nil {\n\t\treturn nil, err\n\t}\n\tif err := checkBundleExpiry(ctx, bundle); err != nil {\n\t\treturn nil, err\n\t}\n\treturn bundle, nil\n}\n\n'
            + '// decodeBundle decodes the content of a cache file to a crl Bundle\nfunc decodeBundle(contentBytes []byte) (*corecrl.Bundle, error) {\n' + DEC_OLD
            + '\tbaseCRL, err := x509.ParseRevocationList(content.BaseCRL)\n\tif err != nil {\n\t\treturn nil, fmt.Errorf("failed to parse base CRL of file retrieved from file cache: %w", err)\n\t}\n'
            + '\tvar deltaCRL *x509.RevocationList\n\tif content.DeltaCRL != nil {\n\t\tif deltaCRL, err = x509.ParseRevocationList(content.DeltaCRL); err != nil {\n\t\t\treturn nil, fmt.Errorf("failed to parse delta CRL of file retrieved from file cache: %w", err)\n\t\t}\n\t}\n'
            + '\treturn newBundle(' + args + '), nil\n}\n\n' + ctor
            + '// checkBundleExpiry returns nil when neither CRL of bundle has expired\nfunc checkBundleExpiry(ctx context.Context, bundle *corecrl.Bundle) error {\n' + BASE_CHK + DELTA_CHK + '\treturn nil\n')
VARIANTS += [
 dict(name='benign-get-two-bundle-literals', file=C, expect='silent', find=GET_TAIL_OLD, replace=get_two_literals(),
      why='each object Get can return is filled from the parse results of the like-named entry fields, the one without a delta is built only where the entry stores none; the expiry facts are about the value Get returns'),
 dict(name='two-literals-second-drops-delta', file=C, expect='flagged(pairing/get)', find=GET_TAIL_OLD,
      replace=get_two_literals(second='&corecrl.Bundle{BaseCRL: baseCRL}').replace('\tdeltaCRL, err := x509', '\t_, err = x509')),
 dict(name='two-literals-no-delta-arm-for-short-base', file=C, expect='flagged(pairing/get)', find=GET_TAIL_OLD,
      replace=get_two_literals(no_delta_guard='content.DeltaCRL == nil || len(content.BaseCRL) < 64')),
 dict(name='two-literals-fields-swapped', file=C, expect='flagged(pairing/get)', find=GET_TAIL_OLD,
      replace=get_two_literals(second='&corecrl.Bundle{BaseCRL: deltaCRL, DeltaCRL: baseCRL}')),
 dict(name='two-literals-delta-parsed-from-base', file=C, expect='flagged(pairing/get)', find=GET_TAIL_OLD, replace=get_two_literals(delta_arg='content.BaseCRL')),
 dict(name='two-literals-delta-expiry-dropped', file=C, expect='flagged(get/delta-expiry)', find=GET_TAIL_OLD, replace=get_two_literals(delta_chk='')),
 dict(name='two-literals-base-expiry-dropped', file=C, expect='flagged(get/base-expiry)', find=GET_TAIL_OLD, replace=get_two_literals(base_chk='')),
 dict(name='two-literals-expiry-of-rebuilt-bundle', file=C, expect='flagged(get/)', find=GET_TAIL_OLD,
      replace=get_two_literals(expiry_arg='&corecrl.Bundle{BaseCRL: bundle.BaseCRL}')),
 dict(name='two-literals-returns-rebuilt-bundle', file=C, expect='flagged(get/)', find=GET_TAIL_OLD,
      replace=get_two_literals(ret='&corecrl.Bundle{BaseCRL: bundle.BaseCRL}')),
 dict(name='two-literals-expiry-helper-drops-delta', file=C, expect='flagged(pairing/get)', find=GET_TAIL_OLD,
      replace=get_two_literals(delta_chk='\tif bundle.DeltaCRL != nil && time.Now().After(bundle.DeltaCRL.NextUpdate) {\n\t\tbundle.DeltaCRL = nil\n\t}\n')),
 dict(name='benign-get-bundle-constructor', file=C, expect='silent', find=GET_TAIL_OLD, replace=get_ctor(),
      why='the constructor stores its parameters; at its only call they are the parse results of the like-named entry fields (nil or the parsed delta)'),
 dict(name='benign-get-bundle-constructor-params-swapped', file=C, expect='silent', find=GET_TAIL_OLD,
      replace=get_ctor(args='deltaCRL, baseCRL', ctor=CTOR.replace('base, delta *x509', 'delta, base *x509'))),
 dict(name='bundle-constructor-args-swapped', file=C, expect='flagged(pairing/get)', find=GET_TAIL_OLD, replace=get_ctor(args='deltaCRL, baseCRL')),
 dict(name='bundle-constructor-drops-delta', file=C, expect='flagged(pairing/get)', find=GET_TAIL_OLD,
      replace=get_ctor(ctor=CTOR.replace('BaseCRL: base, DeltaCRL: delta', 'BaseCRL: base'))),
]
WR_OLD = '\tcontentBytes, err := json.Marshal(content)\n\tif err != nil {\n\t\treturn fmt.Errorf("failed to store crl bundle in file cache: %w", err)\n\t}\n\tif err := file.WriteFile(c.root, filepath.Join(c.root, c.fileName(url)), contentBytes); err != nil {\n\t\treturn fmt.Errorf("failed to store crl bundle in file cache: %w", err)\n\t}\n\treturn nil\n'
def one_err(cond='err == nil', test='err != nil'):
    return ('\tcontentBytes, err := json.Marshal(content)\n\tif ' + cond + ' {\n\t\terr = file.WriteFile(c.root, filepath.Join(c.root, c.fileName(url)), contentBytes)\n\t}\n'
            + '\tif ' + test + ' {\n\t\treturn fmt.Errorf("failed to store crl bundle in file cache: %w", err)\n\t}\n\treturn nil\n')
VARIANTS += [
 dict(name='benign-set-one-error-variable', file=C, expect='silent', find=WR_OLD, replace=one_err(),
      why='err == nil at the single test implies both steps succeeded: the write runs only after the marshal succeeded, and the marshal error arrives at the test non-nil'),
 dict(name='one-error-variable-write-despite-marshal-error', file=C, expect='flagged(set/marshal-error)', find=WR_OLD, replace=one_err(cond='err == nil || len(contentBytes) == 0')),
 dict(name='one-error-variable-overwritten', file=C, expect='flagged(set/marshal-error)', find=WR_OLD, replace=one_err(cond='true')),
 dict(name='one-error-variable-permission-error-tolerated', file=C, expect='flagged(set/write-error)', find=WR_OLD, replace=one_err(test='err != nil && !errors.Is(err, fs.ErrPermission)')),
]

# ---- the expiry checks as one loop over a table of the bundle's lists
EXPIRY_OLD = '\tif err := checkExpiry(ctx, bundle.BaseCRL.NextUpdate); err != nil {\n\t\treturn nil, fmt.Errorf("check BaseCRL expiry failed: %w", err)\n\t}\n\tif bundle.DeltaCRL != nil {\n\t\tif err := checkExpiry(ctx, bundle.DeltaCRL.NextUpdate); err != nil {\n\t\t\treturn nil, fmt.Errorf("check DeltaCRL expiry failed: %w", err)\n\t\t}\n\t}\n'
def table_loop(rows='\t\t{"BaseCRL", bundle.BaseCRL},\n\t\t{"DeltaCRL", bundle.DeltaCRL},\n', skip='part.crl == nil', head='for _, part := range parts {',
               fail='return nil, fmt.Errorf("check %s expiry failed: %w", part.name, err)', pre=''):
    return ('\tparts := []struct {\n\t\tname string\n\t\tcrl  *x509.RevocationList\n\t}{\n' + rows + '\t}\n' + pre + '\t' + head + '\n\t\tif ' + skip + ' {\n\t\t\tcontinue\n\t\t}\n'
            + '\t\tif err := checkExpiry(ctx, part.crl.NextUpdate); err != nil {\n\t\t\t' + fail + '\n\t\t}\n\t}\n')
VARIANTS += [
 dict(name='benign-expiry-table-loop', file=C, expect='silent', find=EXPIRY_OLD, replace=table_loop(),
      why='a range loop over a local table visits every row before the function can succeed; each row is nil or checked; the base list is the result of a parse whose error was tested nil'),
 dict(name='benign-expiry-table-loop-three-columns', file=C, expect='silent', find=EXPIRY_OLD,
      replace=table_loop().replace('\t\tname string\n', '\t\tname string\n\t\tmust bool\n').replace('{"BaseCRL", bundle.BaseCRL}', '{"BaseCRL", true, bundle.BaseCRL}').replace('{"DeltaCRL", bundle.DeltaCRL}', '{"DeltaCRL", false, bundle.DeltaCRL}')),
 dict(name='table-loop-stops-after-first-row', file=C, expect='flagged(get/delta-expiry)', find=EXPIRY_OLD,
      replace=table_loop(head='for i, part := range parts {\n\t\tif i > 0 {\n\t\t\tbreak\n\t\t}')),
 dict(name='table-loop-delta-row-missing', file=C, expect='flagged(get/delta-expiry)', find=EXPIRY_OLD, replace=table_loop(rows='\t\t{"BaseCRL", bundle.BaseCRL},\n')),
 dict(name='table-loop-delta-row-holds-base', file=C, expect='flagged(get/delta-expiry)', find=EXPIRY_OLD,
      replace=table_loop(rows='\t\t{"BaseCRL", bundle.BaseCRL},\n\t\t{"DeltaCRL", bundle.BaseCRL},\n')),
 dict(name='table-loop-skips-delta-row', file=C, expect='flagged(get/delta-expiry)', find=EXPIRY_OLD, replace=table_loop(skip='part.crl == nil || part.name == "DeltaCRL"')),
 dict(name='table-loop-failure-only-logged', file=C, expect='flagged(get/)', find=EXPIRY_OLD, replace=table_loop(fail='logger.Debugf("stale %s: %v", part.name, err)')),
 dict(name='table-loop-row-cleared-before-loop', file=C, expect='flagged(get/delta-expiry)', find=EXPIRY_OLD, replace=table_loop(pre='\tparts[1].crl = nil\n')),
 dict(name='table-loop-ranges-over-first-row-only', file=C, expect='flagged(get/delta-expiry)', find=EXPIRY_OLD, replace=table_loop(head='for _, part := range parts[:1] {')),
 dict(name='table-loop-built-before-delta-is-parsed', file=C, expect='flagged(get/delta-expiry)',
      find='\tif content.DeltaCRL != nil {\n\t\tbundle.DeltaCRL, err = x509.ParseRevocationList(content.DeltaCRL)',
      replace='\tparts := []struct {\n\t\tname string\n\t\tcrl  *x509.RevocationList\n\t}{\n\t\t{"BaseCRL", bundle.BaseCRL},\n\t\t{"DeltaCRL", bundle.DeltaCRL},\n\t}\n\tif content.DeltaCRL != nil {\n\t\tbundle.DeltaCRL, err = x509.ParseRevocationList(content.DeltaCRL)',
      edits=[(C, EXPIRY_OLD, table_loop().split('\t}\n', 1)[1])]),
]
# ---- the key is the key of the identical URL string (decided on values: the printed key does not mention its argument)
VARIANTS += [
 dict(name='get-key-of-lowered-url', file=C, expect='flagged(confinement/Get)', find='contentBytes, err := os.ReadFile(filepath.Join(c.root, c.fileName(url)))',
      replace='contentBytes, err := os.ReadFile(filepath.Join(c.root, c.fileName(strings.ToLower(url))))', edits=[(C, '\t"path/filepath"\n', '\t"path/filepath"\n\t"strings"\n')]),
 dict(name='set-key-of-trimmed-url', file=C, expect='flagged(confinement/Set)', find='file.WriteFile(c.root, filepath.Join(c.root, c.fileName(url)), contentBytes)',
      replace='file.WriteFile(c.root, filepath.Join(c.root, c.fileName(strings.TrimSuffix(url, "/"))), contentBytes)', edits=[(C, '\t"path/filepath"\n', '\t"path/filepath"\n\t"strings"\n')]),
 dict(name='benign-entry-path-helper', expect='silent',
      edits=[(C, 'contentBytes, err := os.ReadFile(filepath.Join(c.root, c.fileName(url)))', 'contentBytes, err := os.ReadFile(c.entryPath(url))'),
             (C, 'file.WriteFile(c.root, filepath.Join(c.root, c.fileName(url)), contentBytes)', 'file.WriteFile(c.root, c.entryPath(url), contentBytes)'),
             (C, SET_DOC, '// entryPath returns the path of the entry of url\nfunc (c *FileCache) entryPath(url string) string {\n\treturn filepath.Join(c.root, c.fileName(url))\n}\n\n' + SET_DOC)]),
 dict(name='entry-path-helper-fed-host-only', expect='flagged(confinement/Get)',
      edits=[(C, 'contentBytes, err := os.ReadFile(filepath.Join(c.root, c.fileName(url)))', 'contentBytes, err := os.ReadFile(c.entryPath(strings.SplitN(url, "?", 2)[0]))'),
             (C, '\t"path/filepath"\n', '\t"path/filepath"\n\t"strings"\n'),
             (C, SET_DOC, '// entryPath returns the path of the entry of url\nfunc (c *FileCache) entryPath(url string) string {\n\treturn filepath.Join(c.root, c.fileName(url))\n}\n\n' + SET_DOC)]),
]

# ---- third pass: the guard for an absent list (and the wrapping of the error) moved from Get into the expiry function;
# the function decides with a switch / nests the checks / collects the outcome in an error local
CHECK_OLD = ('// checkExpiry returns nil when nextUpdate is bounded before current time\nfunc checkExpiry(ctx context.Context, nextUpdate time.Time) error {\n\tlogger := log.GetLogger(ctx)\n\n'
             '\tif nextUpdate.IsZero() {\n\t\treturn errors.New("crl bundle retrieved from file cache does not contain valid NextUpdate")\n\t}\n'
             '\tif time.Now().After(nextUpdate) {\n\t\tlogger.Debugf("CRL bundle retrieved from file cache has expired at %s", nextUpdate)\n\t\treturn corecrl.ErrCacheMiss\n\t}\n\treturn nil\n}')
ZERO_ERR = 'errors.New("crl bundle retrieved from file cache does not contain valid NextUpdate")'
def flat_calls(base='checkExpiry(logger, "BaseCRL", bundle.BaseCRL)', delta='checkExpiry(logger, "DeltaCRL", bundle.DeltaCRL)', base_stmt=None):
    b = base_stmt if base_stmt is not None else '\tif err := %s; err != nil {\n\t\treturn nil, err\n\t}\n' % base
    return b + '\tif err := %s; err != nil {\n\t\treturn nil, err\n\t}\n' % delta
def check_switch(guard='list == nil', zero='err = ' + ZERO_ERR, miss='err = corecrl.ErrCacheMiss', verb='%w', after='time.Now().After(nextUpdate)'):
    # the held-out shape: guard clause for the absent list, outcome in an error local, one wrapping return
    return ('// checkExpiry returns nil when list is absent or not yet due\nfunc checkExpiry(logger log.Logger, name string, list *x509.RevocationList) error {\n'
            '\tif ' + guard + ' {\n\t\treturn nil\n\t}\n\n\tvar err error\n\tnextUpdate := list.NextUpdate\n\tswitch {\n\tcase nextUpdate.IsZero():\n\t\t' + zero + '\n'
            '\tcase ' + after + ':\n\t\tlogger.Debugf("CRL bundle retrieved from file cache has expired at %s", nextUpdate)\n\t\t' + miss + '\n\tdefault:\n\t\treturn nil\n\t}\n'
            '\treturn fmt.Errorf("check %s expiry failed: ' + verb + '", name, err)\n}')
def check_nested(after='time.Now().After(list.NextUpdate)', zero_ret='return ' + ZERO_ERR):
    # the checks nested under `list != nil`, one `return nil` for "absent" and "fresh" alike; Get keeps the wrapping
    return ('// checkExpiry returns nil when list is absent or not yet due\nfunc checkExpiry(ctx context.Context, list *x509.RevocationList) error {\n'
            '\tif list != nil {\n\t\tif list.NextUpdate.IsZero() {\n\t\t\t' + zero_ret + '\n\t\t}\n'
            '\t\tif ' + after + ' {\n\t\t\tlog.GetLogger(ctx).Debugf("CRL bundle retrieved from file cache has expired at %s", list.NextUpdate)\n\t\t\treturn corecrl.ErrCacheMiss\n\t\t}\n\t}\n\treturn nil\n}')
NESTED_CALLS = ('\tif err := checkExpiry(ctx, bundle.BaseCRL); err != nil {\n\t\treturn nil, fmt.Errorf("check BaseCRL expiry failed: %w", err)\n\t}\n'
                '\tif err := checkExpiry(ctx, bundle.DeltaCRL); err != nil {\n\t\treturn nil, fmt.Errorf("check DeltaCRL expiry failed: %w", err)\n\t}\n')
def check_cases(miss='corecrl.ErrCacheMiss', helper_verb='%w'):
    # the guard as the first case of the switch, one return per outcome, the wrapping in a helper of its own
    return ('// expiryError names the list in the error\nfunc expiryError(name string, err error) error {\n\treturn fmt.Errorf("check %s expiry failed: ' + helper_verb + '", name, err)\n}\n\n'
            '// checkExpiry returns nil when list is absent or not yet due\nfunc checkExpiry(logger log.Logger, name string, list *x509.RevocationList) error {\n'
            '\tswitch {\n\tcase list == nil:\n\t\treturn nil\n\tcase list.NextUpdate.IsZero():\n\t\treturn expiryError(name, ' + ZERO_ERR + ')\n'
            '\tcase time.Now().After(list.NextUpdate):\n\t\tlogger.Debugf("CRL bundle retrieved from file cache has expired at %s", list.NextUpdate)\n\t\treturn expiryError(name, ' + miss + ')\n\t}\n\treturn nil\n}')
BASE_PARSE = '\tvar bundle corecrl.Bundle\n\tbundle.BaseCRL, err = x509.ParseRevocationList(content.BaseCRL)\n'
DELTA_PARSE = '\tif content.DeltaCRL != nil {\n\t\tbundle.DeltaCRL, err = x509.ParseRevocationList(content.DeltaCRL)\n'
VARIANTS += [
 dict(name='benign-expiry-nil-guard-in-callee', expect='silent', edits=[(C, EXPIRY_OLD, flat_calls()), (C, CHECK_OLD, check_switch())],
      why='every success of the function lies behind "the list is nil" or behind both checks of its NextUpdate; for the delta that is the obligation, for the base the list is the result of a parse whose error was tested nil and is read after it was stored; the value returned wraps (%w) a phi one arm of which is the sentinel, arriving only behind "now is after NextUpdate"'),
 dict(name='benign-expiry-nil-guard-nested', expect='silent', edits=[(C, EXPIRY_OLD, NESTED_CALLS), (C, CHECK_OLD, check_nested())],
      why='the same facts decided on paths: no return of nil is reachable once the edges "list is nil" and "check passed" are removed, although absent and fresh leave by the same return'),
 dict(name='benign-expiry-nil-guard-switch-case-wrap-helper', expect='silent', edits=[(C, EXPIRY_OLD, flat_calls()), (C, CHECK_OLD, check_cases())],
      why='the wrapping helper hands back its error parameter wrapped with %w on every return: what it returns for the sentinel still is the sentinel for errors.Is'),
 dict(name='benign-expiry-nil-guard-sentinel-wrapped-in-place', expect='silent', edits=[(C, EXPIRY_OLD, flat_calls()), (C, CHECK_OLD, check_switch(miss='err = fmt.Errorf("%w: due at %s", corecrl.ErrCacheMiss, nextUpdate)'))]),
 # the new shapes with the property broken
 dict(name='nil-guard-base-call-fed-delta', expect='flagged(get/base-expiry)',
      edits=[(C, EXPIRY_OLD, flat_calls(base='checkExpiry(logger, "BaseCRL", bundle.DeltaCRL)')), (C, CHECK_OLD, check_switch())]),
 dict(name='nil-guard-base-result-ignored', expect='flagged(get/base-expiry)',
      edits=[(C, EXPIRY_OLD, flat_calls(base_stmt='\t_ = checkExpiry(logger, "BaseCRL", bundle.BaseCRL)\n')), (C, CHECK_OLD, check_switch())]),
 dict(name='nil-guard-base-checked-before-parsed', expect='flagged(get/base-expiry)',
      edits=[(C, BASE_PARSE, '\tvar bundle corecrl.Bundle\n\tif err := checkExpiry(logger, "BaseCRL", bundle.BaseCRL); err != nil {\n\t\treturn nil, err\n\t}\n\tbundle.BaseCRL, err = x509.ParseRevocationList(content.BaseCRL)\n'),
             (C, EXPIRY_OLD, flat_calls(base_stmt='')), (C, CHECK_OLD, check_switch())]),
 dict(name='nil-guard-delta-checked-before-parsed', expect='flagged(get/delta-expiry)',
      edits=[(C, DELTA_PARSE, '\tif err := checkExpiry(logger, "DeltaCRL", bundle.DeltaCRL); err != nil {\n\t\treturn nil, err\n\t}\n' + DELTA_PARSE),
             (C, EXPIRY_OLD, '\tif err := checkExpiry(logger, "BaseCRL", bundle.BaseCRL); err != nil {\n\t\treturn nil, err\n\t}\n'), (C, CHECK_OLD, check_switch())]),
 dict(name='delta-checked-before-parsed', file=C, expect='flagged(get/delta-expiry)',
      find=DELTA_PARSE, replace='\tif bundle.DeltaCRL != nil {\n\t\tif err := checkExpiry(ctx, bundle.DeltaCRL.NextUpdate); err != nil {\n\t\t\treturn nil, fmt.Errorf("check DeltaCRL expiry failed: %w", err)\n\t\t}\n\t}\n' + DELTA_PARSE,
      edits=[(C, EXPIRY_OLD, '\tif err := checkExpiry(ctx, bundle.BaseCRL.NextUpdate); err != nil {\n\t\treturn nil, fmt.Errorf("check BaseCRL expiry failed: %w", err)\n\t}\n')]),
 dict(name='nil-guard-sentinel-not-wrapped', expect='flagged(expiry/expired-is-miss)', edits=[(C, EXPIRY_OLD, flat_calls()), (C, CHECK_OLD, check_switch(verb='%v'))]),
 dict(name='nil-guard-wrap-verb-on-the-name', expect='flagged(expiry/expired-is-miss)',
      edits=[(C, EXPIRY_OLD, flat_calls()), (C, CHECK_OLD, check_switch().replace('"check %s expiry failed: %w", name, err)', '"check %w expiry failed: %v", errors.New(name), err)'))]),
 dict(name='nil-guard-expired-is-error', expect='flagged(expiry/expired-is-miss)', edits=[(C, EXPIRY_OLD, flat_calls()), (C, CHECK_OLD, check_switch(miss='err = errors.New("expired")'))]),
 dict(name='nil-guard-zero-next-update-ok', expect='flagged(expiry/zero-next-update)', edits=[(C, EXPIRY_OLD, flat_calls()), (C, CHECK_OLD, check_switch(zero='return nil'))]),
 dict(name='nil-guard-also-skips-delta', expect='flagged(expiry/)', edits=[(C, EXPIRY_OLD, flat_calls()), (C, CHECK_OLD, check_switch(guard='list == nil || name == "DeltaCRL"'))]),
 dict(name='nil-guard-expiry-reversed', expect='flagged(expiry/)', edits=[(C, EXPIRY_OLD, flat_calls()), (C, CHECK_OLD, check_switch(after='time.Now().Before(nextUpdate)'))]),
 dict(name='nil-guard-nested-expiry-reversed', expect='flagged(expiry/)', edits=[(C, EXPIRY_OLD, NESTED_CALLS), (C, CHECK_OLD, check_nested(after='list.NextUpdate.After(time.Now())'))]),
 dict(name='nil-guard-nested-zero-only-logged', expect='flagged(expiry/zero-next-update)',
      edits=[(C, EXPIRY_OLD, NESTED_CALLS), (C, CHECK_OLD, check_nested(zero_ret='log.GetLogger(ctx).Debugf("no NextUpdate")\n\t\t\treturn nil'))]),
 dict(name='nil-guard-nested-base-call-fed-delta', expect='flagged(get/base-expiry)',
      edits=[(C, EXPIRY_OLD, NESTED_CALLS.replace('checkExpiry(ctx, bundle.BaseCRL)', 'checkExpiry(ctx, bundle.DeltaCRL)')), (C, CHECK_OLD, check_nested())]),
 dict(name='nil-guard-wrap-helper-drops-cause', expect='flagged(expiry/expired-is-miss)', edits=[(C, EXPIRY_OLD, flat_calls()), (C, CHECK_OLD, check_cases(helper_verb='%v'))]),
 dict(name='nil-guard-wrap-helper-fed-other-error', expect='flagged(expiry/expired-is-miss)', edits=[(C, EXPIRY_OLD, flat_calls()), (C, CHECK_OLD, check_cases(miss='errors.New("expired")'))]),
]

# ---- third pass, same class in the sibling positions: the guard "no delta" moved into the helper that parses a stored
# list (Get) / hands out the bytes of a list (Set); a parse helper called for both fields
DELTA_BLOCK = ('\tif content.DeltaCRL != nil {\n\t\tbundle.DeltaCRL, err = x509.ParseRevocationList(content.DeltaCRL)\n\t\tif err != nil {\n'
               '\t\t\treturn nil, fmt.Errorf("failed to parse delta CRL of file retrieved from file cache: %w", err)\n\t\t}\n\t}\n')
def parse_optional(arg='content.DeltaCRL', guard='raw == nil', tail='\treturn x509.ParseRevocationList(raw)\n'):
    return [(C, DELTA_BLOCK, '\tbundle.DeltaCRL, err = parseOptional(' + arg + ')\n\tif err != nil {\n\t\treturn nil, fmt.Errorf("failed to parse delta CRL of file retrieved from file cache: %w", err)\n\t}\n'),
            (C, SET_DOC, '// parseOptional parses raw, if any\nfunc parseOptional(raw []byte) (*x509.RevocationList, error) {\n\tif ' + guard + ' {\n\t\treturn nil, nil\n\t}\n' + tail + '}\n\n' + SET_DOC)]
BASE_BLOCK = '\tbundle.BaseCRL, err = x509.ParseRevocationList(content.BaseCRL)\n\tif err != nil {\n\t\treturn nil, fmt.Errorf("failed to parse base CRL of file retrieved from file cache: %w", err)\n\t}\n'
def parse_both(base_stmt='\tbundle.BaseCRL, err = parseCRL(content.BaseCRL, "base")\n\tif err != nil {\n\t\treturn nil, err\n\t}\n', delta_arg='content.DeltaCRL'):
    return [(C, BASE_BLOCK, base_stmt),
            (C, DELTA_BLOCK, '\tif content.DeltaCRL != nil {\n\t\tif bundle.DeltaCRL, err = parseCRL(' + delta_arg + ', "delta"); err != nil {\n\t\t\treturn nil, err\n\t\t}\n\t}\n'),
            (C, SET_DOC, '// parseCRL parses one stored list\nfunc parseCRL(raw []byte, what string) (*x509.RevocationList, error) {\n\tlist, err := x509.ParseRevocationList(raw)\n\tif err != nil {\n'
                         '\t\treturn nil, fmt.Errorf("failed to parse %s CRL of file retrieved from file cache: %w", what, err)\n\t}\n\treturn list, nil\n}\n\n' + SET_DOC)]
def raw_helper(arg='bundle.DeltaCRL', guard='list == nil', ret='list.Raw'):
    return [(C, SET_OLD, '\tcontent := fileCacheContent{\n\t\tBaseCRL:  bundle.BaseCRL.Raw,\n\t\tDeltaCRL: rawOf(' + arg + '),\n\t}\n\tcontentBytes, err := json.Marshal(content)\n'),
            (C, SET_DOC, '// rawOf returns the DER bytes of list, if any\nfunc rawOf(list *x509.RevocationList) []byte {\n\tif ' + guard + ' {\n\t\treturn nil\n\t}\n\treturn ' + ret + '\n}\n\n' + SET_DOC)]
VARIANTS += [
 dict(name='benign-get-parse-optional-helper', expect='silent', edits=parse_optional(),
      why='the helper hands back nil only behind "the stored field is nil" and otherwise the result of the parse of its argument, which at this call is the entry field of the same name; the exit that forwards the parse reports success only if the parse did'),
 dict(name='benign-get-parse-helper-for-both-fields', expect='silent', edits=parse_both(),
      why='the helper is judged per call: what it parses is its parameter, replaced by the argument of each call'),
 dict(name='parse-optional-fed-base-field', expect='flagged(pairing/get)', edits=parse_optional(arg='content.BaseCRL')),
 dict(name='parse-optional-skips-short-delta', expect='flagged(get/delta-parse-error)', edits=parse_optional(guard='len(raw) < 64')),
 dict(name='parse-optional-swallows-parse-error', expect='flagged(get/delta-parse-error)',
      edits=parse_optional(tail='\tlist, err := x509.ParseRevocationList(raw)\n\tif err != nil {\n\t\treturn nil, nil\n\t}\n\treturn list, nil\n')),
 dict(name='parse-helper-base-error-ignored', expect='flagged(get/base-parse-error)', edits=parse_both(base_stmt='\tbundle.BaseCRL, _ = parseCRL(content.BaseCRL, "base")\n')),
 dict(name='parse-helper-delta-call-fed-base', expect='flagged(pairing/get)', edits=parse_both(delta_arg='content.BaseCRL')),
 dict(name='benign-set-raw-helper', expect='silent', edits=raw_helper(),
      why='what the helper hands back is nil only behind "the list is nil" and otherwise the Raw bytes of its argument, which at this call is the bundle field of the same name'),
 dict(name='set-raw-helper-drops-large-delta', expect='flagged(set/delta-stored-when-present)', edits=raw_helper(guard='list == nil || len(list.Raw) > 1<<20')),
 dict(name='set-raw-helper-fed-base', expect='flagged(pairing/set)', edits=raw_helper(arg='bundle.BaseCRL')),
 dict(name='set-raw-helper-returns-tbs-bytes', expect='flagged(pairing/set)', edits=raw_helper(ret='list.RawTBSRevocationList')),
 dict(name='locals-set-drops-large-delta', file=C, expect='flagged(set/delta-stored-when-present)', find=SET_OLD,
      replace=set_locals().replace('if bundle.DeltaCRL != nil {', 'if bundle.DeltaCRL != nil && len(bundle.DeltaCRL.Raw) < 1<<20 {')),
]

# ---- third pass: standard-library equivalents of the clock comparison and of the not-exist test; the clock read by a predicate
AFTER = '\tif time.Now().After(nextUpdate) {'
def predicate(body='return time.Now().After(t)', use='expired(nextUpdate)'):
    return [(C, CHECK_OLD, CHECK_OLD.replace('if time.Now().After(nextUpdate) {', 'if ' + use + ' {') + '\n\n// expired reports whether t has passed\nfunc expired(t time.Time) bool {\n\t' + body + '\n}')]
VARIANTS += [
 dict(name='benign-expiry-time-since', file=C, expect='silent', find=AFTER, replace='\tif time.Since(nextUpdate) > 0 {',
      why='time.Since(t) is time.Now().Sub(t): positive exactly when now is after t'),
 dict(name='benign-expiry-time-until', file=C, expect='silent', find=AFTER, replace='\tif time.Until(nextUpdate) < 0 {'),
 dict(name='benign-expiry-compare', file=C, expect='silent', find=AFTER, replace='\tif nextUpdate.Compare(time.Now()) < 0 {'),
 dict(name='benign-expiry-sub-constant-left', file=C, expect='silent', find=AFTER, replace='\tif 0 < time.Now().Sub(nextUpdate) {'),
 dict(name='benign-expiry-clock-predicate', expect='silent', edits=predicate(),
      why='the predicate answers true only behind "now is after its parameter"; on the edges of the checking function that fact reads with the parameter replaced by nextUpdate'),
 dict(name='benign-expiry-clock-predicate-since', expect='silent', edits=predicate(body='return time.Since(t) > 0')),
 dict(name='expiry-time-since-reversed', file=C, expect='flagged(expiry/)', find=AFTER, replace='\tif time.Since(nextUpdate) < 0 {'),
 dict(name='expiry-time-until-reversed', file=C, expect='flagged(expiry/)', find=AFTER, replace='\tif time.Until(nextUpdate) > 0 {'),
 dict(name='expiry-compare-reversed', file=C, expect='flagged(expiry/)', find=AFTER, replace='\tif time.Now().Compare(nextUpdate) < 0 {'),
 dict(name='expiry-time-since-with-grace-period', file=C, expect='flagged(expiry/)', find=AFTER, replace='\tif time.Since(nextUpdate) > 24*time.Hour {'),
 dict(name='expiry-time-since-this-update', expect='flagged(get/base-expiry)',
      edits=[(C, AFTER, '\tif time.Since(nextUpdate) > 0 {'), (C, 'checkExpiry(ctx, bundle.BaseCRL.NextUpdate)', 'checkExpiry(ctx, bundle.BaseCRL.ThisUpdate.Add(24*time.Hour))')]),
 dict(name='clock-predicate-reversed', expect='flagged(expiry/)', edits=predicate(body='return time.Now().Before(t)')),
 dict(name='clock-predicate-fed-other-time', expect='flagged(expiry/)', edits=predicate(use='expired(nextUpdate.Add(24 * time.Hour))')),
 dict(name='clock-predicate-never-expired-for-zero', expect='flagged(expiry/)', edits=predicate(body='return !t.IsZero() && time.Now().After(t.Add(time.Hour))')),
 dict(name='benign-missing-os-isnotexist', expect='silent', edits=[(C, 'if errors.Is(err, fs.ErrNotExist) {', 'if os.IsNotExist(err) {'), (C, '\t"io/fs"\n', '')],
      why='for the *PathError os.ReadFile returns os.IsNotExist and errors.Is(err, fs.ErrNotExist) agree'),
 dict(name='missing-os-isexist-is-miss', expect='flagged(get/missing-is-miss)', edits=[(C, 'if errors.Is(err, fs.ErrNotExist) {', 'if os.IsExist(err) {'), (C, '\t"io/fs"\n', '')]),
 dict(name='missing-is-plain-error', file=C, expect='flagged(get/missing-is-miss)', find='\t\t\treturn nil, corecrl.ErrCacheMiss\n\t\t}\n\t\treturn nil, fmt.Errorf("failed to get crl',
      replace='\t\t\treturn nil, errors.New("no entry")\n\t\t}\n\t\treturn nil, fmt.Errorf("failed to get crl'),
]

# ---- third pass: the read step of Get in a helper of the package (extract-helper at the read boundary)
READ_OLD = ('\tcontentBytes, err := os.ReadFile(filepath.Join(c.root, c.fileName(url)))\n\tif err != nil {\n\t\tif errors.Is(err, fs.ErrNotExist) {\n\t\t\tlogger.Debugf("CRL file cache miss. Key %q does not exist", url)\n\t\t\treturn nil, corecrl.ErrCacheMiss\n\t\t}\n'
            '\t\treturn nil, fmt.Errorf("failed to get crl bundle from file cache with key %q: %w", url, err)\n\t}\n')
def read_helper(call='\tcontentBytes, err := c.readEntry(logger, url)\n\tif err != nil {\n\t\treturn nil, err\n\t}\n', body=READ_OLD, ret='\treturn contentBytes, nil\n', imports=None):
    e = [(C, READ_OLD, call), (C, SET_DOC, '// readEntry reads the entry stored for url\nfunc (c *FileCache) readEntry(logger log.Logger, url string) ([]byte, error) {\n' + body + ret + '}\n\n' + SET_DOC)]
    if imports:
        e.append((C, '\t"path/filepath"\n', '\t"path/filepath"\n' + imports))
    return e
VARIANTS += [
 dict(name='benign-get-read-helper', expect='silent', edits=read_helper(),
      why='the one read stands in a helper called once: its path reads Join(root, key(url)) with the helper\'s parameters replaced by Get\'s arguments, its error is a gate of every success of Get, the miss it returns is handed on by Get unchanged'),
 dict(name='benign-get-read-helper-get-wraps-error', expect='silent',
      edits=read_helper(call='\tcontentBytes, err := c.readEntry(logger, url)\n\tif err != nil {\n\t\treturn nil, fmt.Errorf("crl file cache: %w", err)\n\t}\n'),
      why='%w keeps the sentinel reachable for errors.Is'),
 dict(name='benign-get-read-helper-params-swapped', expect='silent',
      edits=[(C, READ_OLD, '\tcontentBytes, err := c.readEntry(url, logger)\n\tif err != nil {\n\t\treturn nil, err\n\t}\n'),
             (C, SET_DOC, '// readEntry reads the entry stored for key\nfunc (c *FileCache) readEntry(key string, logger log.Logger) ([]byte, error) {\n' + READ_OLD.replace('url', 'key') + '\treturn contentBytes, nil\n}\n\n' + SET_DOC)]),
 dict(name='read-helper-miss-lost-in-get', expect='flagged(get/missing-is-miss)',
      edits=read_helper(call='\tcontentBytes, err := c.readEntry(logger, url)\n\tif err != nil {\n\t\treturn nil, fmt.Errorf("crl file cache: %v", err)\n\t}\n')),
 dict(name='read-helper-miss-is-plain-error', expect='flagged(get/missing-is-miss)', edits=read_helper(body=READ_OLD.replace('return nil, corecrl.ErrCacheMiss', 'return nil, errors.New("no entry")'))),
 dict(name='read-helper-reads-key-of-lowered-url', expect='flagged(confinement/Get)', edits=read_helper(body=READ_OLD.replace('c.fileName(url)', 'c.fileName(strings.ToLower(url))'), imports='\t"strings"\n')),
 dict(name='read-helper-fed-trimmed-url', expect='flagged(confinement/Get)',
      edits=read_helper(call='\tcontentBytes, err := c.readEntry(logger, strings.TrimSpace(url))\n\tif err != nil {\n\t\treturn nil, err\n\t}\n', imports='\t"strings"\n')),
 dict(name='read-helper-reads-url-as-path', expect='flagged(confinement/Get)', edits=read_helper(body=READ_OLD.replace('filepath.Join(c.root, c.fileName(url))', 'filepath.Join(c.root, url)'))),
 dict(name='read-helper-error-ignored-by-get', expect='flagged(get/read-error)', edits=read_helper(call='\tcontentBytes, _ := c.readEntry(logger, url)\n\tvar err error\n')),
 dict(name='read-helper-swallows-read-error', expect='flagged(get/read-error)',
      edits=read_helper(body=READ_OLD.replace('\t\treturn nil, fmt.Errorf("failed to get crl bundle from file cache with key %q: %w", url, err)\n', '\t\tlogger.Debugf("read of %q failed: %v", url, err)\n'))),
]

# ---- third pass: the write step of Set in a helper of the package (extract-helper at the write boundary)
WRITE_OLD = '\tif err := file.WriteFile(c.root, filepath.Join(c.root, c.fileName(url)), contentBytes); err != nil {\n\t\treturn fmt.Errorf("failed to store crl bundle in file cache: %w", err)\n\t}\n\treturn nil\n}\n'
def write_helper(call='c.writeEntry(url, contentBytes)', stmt=None, body='\treturn file.WriteFile(c.root, filepath.Join(c.root, c.fileName(url)), content)\n', extra=None, imports=None):
    if stmt is None:
        stmt = '\tif err := ' + call + '; err != nil {\n\t\treturn fmt.Errorf("failed to store crl bundle in file cache: %w", err)\n\t}\n'
    e = [(C, WRITE_OLD, stmt + '\treturn nil\n}\n\n// writeEntry stores content as the entry of url\nfunc (c *FileCache) writeEntry(url string, content []byte) error {\n' + body + '}\n')]
    if extra:
        e += extra
    if imports:
        e.append((C, '\t"path/filepath"\n', '\t"path/filepath"\n' + imports))
    return e
VARIANTS += [
 dict(name='benign-set-write-helper', expect='silent', edits=write_helper(),
      why='the writer\'s error is the helper\'s result, which Set tests; the destination reads Join(root, key(url)) and the content the marshalled entry once the helper\'s parameters are replaced by Set\'s arguments'),
 dict(name='benign-set-write-helper-wraps-error', expect='silent',
      edits=write_helper(stmt='\tif err := c.writeEntry(url, contentBytes); err != nil {\n\t\treturn err\n\t}\n',
                         body='\tif err := file.WriteFile(c.root, filepath.Join(c.root, c.fileName(url)), content); err != nil {\n\t\treturn fmt.Errorf("failed to store crl bundle in file cache: %w", err)\n\t}\n\treturn nil\n')),
 dict(name='write-helper-drops-write-error', expect='flagged(set/write-error)', edits=write_helper(body='\t_ = file.WriteFile(c.root, filepath.Join(c.root, c.fileName(url)), content)\n\treturn nil\n')),
 dict(name='write-helper-error-ignored-by-set', expect='flagged(set/write-error)', edits=write_helper(stmt='\t_ = c.writeEntry(url, contentBytes)\n')),
 dict(name='write-helper-fed-trimmed-url', expect='flagged(confinement/Set)', edits=write_helper(call='c.writeEntry(strings.TrimSuffix(url, "/"), contentBytes)', imports='\t"strings"\n')),
 dict(name='write-helper-destination-is-url', expect='flagged(confinement/Set)', edits=write_helper(body='\treturn file.WriteFile(c.root, filepath.Join(c.root, filepath.Base(url)), content)\n')),
 dict(name='write-helper-fed-a-prefix', expect='flagged(set/writes-marshalled-entry)', edits=write_helper(call='c.writeEntry(url, contentBytes[:len(contentBytes)&^511])')),
 dict(name='write-helper-fed-base-bytes', expect='flagged(set/writes-marshalled-entry)', edits=write_helper(stmt='\t_ = contentBytes\n\tif err := c.writeEntry(url, bundle.BaseCRL.Raw); err != nil {\n\t\treturn fmt.Errorf("failed to store crl bundle in file cache: %w", err)\n\t}\n')),
]

# ---- guard pass: the not-exist test of Get weakened (a missing entry must leave by no other error than the miss)
NE_IF = '\t\tif errors.Is(err, fs.ErrNotExist) {\n'
NE_BLOCK = ('\tif err != nil {\n\t\tif errors.Is(err, fs.ErrNotExist) {\n\t\t\tlogger.Debugf("CRL file cache miss. Key %q does not exist", url)\n\t\t\treturn nil, corecrl.ErrCacheMiss\n\t\t}\n'
            '\t\treturn nil, fmt.Errorf("failed to get crl bundle from file cache with key %q: %w", url, err)\n\t}\n')
NE_OTHER = '\t\treturn nil, fmt.Errorf("failed to get crl bundle from file cache with key %q: %w", url, err)\n'
NE_MISS = '\t\tlogger.Debugf("CRL file cache miss. Key %q does not exist", url)\n\t\treturn nil, corecrl.ErrCacheMiss\n'
VARIANTS += [
 dict(name='guard-not-exist-false-and', file=C, expect='flagged(get/missing-only-miss)', find=NE_IF, replace='\t\tif false && (errors.Is(err, fs.ErrNotExist)) {\n',
      why='the sentinel still stands behind the passing edge of the test (get/missing-is-miss holds), but a missing file now falls through to the plain read error'),
 dict(name='guard-not-exist-extra-conjunct-url', file=C, expect='flagged(get/missing-only-miss)', find=NE_IF, replace='\t\tif strings.HasPrefix(url, "http") && errors.Is(err, fs.ErrNotExist) {\n',
      edits=[(C, '\t"path/filepath"\n', '\t"path/filepath"\n\t"strings"\n')]),
 dict(name='guard-not-exist-extra-conjunct-ctx', file=C, expect='flagged(get/missing-only-miss)', find=NE_IF, replace='\t\tif ctx.Err() == nil && errors.Is(err, fs.ErrNotExist) {\n'),
 dict(name='guard-not-exist-switch-extra-conjunct', file=C, expect='flagged(get/missing-only-miss)', find=NE_BLOCK,
      replace='\tswitch {\n\tcase err == nil:\n\tcase len(url) > 1 && errors.Is(err, fs.ErrNotExist):\n' + NE_MISS + '\tdefault:\n' + NE_OTHER + '\t}\n'),
 dict(name='guard-not-exist-predicate-extra-conjunct', expect='flagged(get/missing-only-miss)',
      edits=[(C, NE_IF, '\t\tif entryMissing(err, url) {\n'),
             (C, SET_DOC, '// entryMissing tells whether the read failed because there is no entry\nfunc entryMissing(err error, url string) bool {\n\treturn url != "" && errors.Is(err, fs.ErrNotExist)\n}\n\n' + SET_DOC)]),
 dict(name='guard-not-exist-read-helper-false-and', expect='flagged(get/missing-only-miss)',
      edits=read_helper(body=READ_OLD.replace('if errors.Is(err, fs.ErrNotExist) {', 'if false && (errors.Is(err, fs.ErrNotExist)) {'))),
 dict(name='read-helper-miss-handed-on-only-for-not-exist', expect='flagged(get/missing-only-miss)',
      edits=read_helper(call='\tcontentBytes, err := c.readEntry(logger, url)\n\tif err != nil {\n\t\tif errors.Is(err, fs.ErrNotExist) {\n\t\t\treturn nil, err\n\t\t}\n\t\treturn nil, errors.New("failed to read the crl file cache")\n\t}\n'),
      why='the helper has already turned not-exist into the miss: the caller\'s test is false for it and the miss is replaced by a plain error'),
 dict(name='benign-not-exist-negated-arms-exchanged', file=C, expect='silent', find=NE_BLOCK,
      replace='\tif err != nil {\n\t\tif !errors.Is(err, fs.ErrNotExist) {\n\t' + NE_OTHER + '\t\t}\n' + NE_MISS + '\t}\n'),
 dict(name='benign-not-exist-switch', file=C, expect='silent', find=NE_BLOCK,
      replace='\tswitch {\n\tcase err == nil:\n\tcase errors.Is(err, fs.ErrNotExist):\n' + NE_MISS + '\tdefault:\n' + NE_OTHER + '\t}\n'),
 dict(name='benign-not-exist-test-first', file=C, expect='silent', find=NE_BLOCK,
      replace='\tif errors.Is(err, fs.ErrNotExist) {\n' + NE_MISS + '\t}\n\tif err != nil {\n' + NE_OTHER + '\t}\n'),
 dict(name='benign-not-exist-predicate', expect='silent',
      edits=[(C, NE_IF, '\t\tif entryMissing(err) {\n'),
             (C, SET_DOC, '// entryMissing tells whether the read failed because there is no entry\nfunc entryMissing(err error) bool {\n\treturn errors.Is(err, fs.ErrNotExist)\n}\n\n' + SET_DOC)],
      why='the predicate answers false only behind "errors.Is(err, fs.ErrNotExist) is false"; on the edges of Get that fact reads with the parameter replaced by the read error'),
 dict(name='benign-not-exist-error-local-single-return', file=C, expect='silent', find=NE_BLOCK,
      replace='\tif err != nil {\n\t\tvar readErr error\n\t\tif errors.Is(err, fs.ErrNotExist) {\n\t\t\tlogger.Debugf("CRL file cache miss. Key %q does not exist", url)\n\t\t\treadErr = corecrl.ErrCacheMiss\n\t\t} else {\n\t\t\treadErr = fmt.Errorf("failed to get crl bundle from file cache with key %q: %w", url, err)\n\t\t}\n\t\treturn nil, readErr\n\t}\n',
      why='one return of an error local: the arms of the phi are judged one by one'),
 dict(name='error-local-single-return-extra-conjunct', file=C, expect='flagged(get/missing-only-miss)', find=NE_BLOCK,
      replace='\tif err != nil {\n\t\tvar readErr error\n\t\tif len(url) > 1 && errors.Is(err, fs.ErrNotExist) {\n\t\t\tlogger.Debugf("CRL file cache miss. Key %q does not exist", url)\n\t\t\treadErr = corecrl.ErrCacheMiss\n\t\t} else {\n\t\t\treadErr = fmt.Errorf("failed to get crl bundle from file cache with key %q: %w", url, err)\n\t\t}\n\t\treturn nil, readErr\n\t}\n'),
 dict(name='benign-read-helper-caller-tests-miss-first', expect='silent',
      edits=read_helper(call='\tcontentBytes, err := c.readEntry(logger, url)\n\tif err != nil {\n\t\tif errors.Is(err, corecrl.ErrCacheMiss) {\n\t\t\treturn nil, err\n\t\t}\n\t\treturn nil, fmt.Errorf("crl file cache: %v", err)\n\t}\n'),
      why='the error that loses its chain (%v) is returned only behind "the helper\'s error is not the miss"'),
]
