M = 'plugin/manager.go'
F = 'internal/file/file.go'
V = 'verifier/verifier.go'
VARIANTS = [
 dict(name='F6-get-unvalidated', file=M, expect='flagged(confined/(*ngo/plugin.CLIManager).Get)',
      find='func (m *CLIManager) Get(ctx context.Context, name string) (plugin.Plugin, error) {\n\tif err := validatePluginName(name); err != nil {\n\t\treturn nil, err\n\t}\n', replace='func (m *CLIManager) Get(ctx context.Context, name string) (plugin.Plugin, error) {\n'),
 dict(name='F6-uninstall-unvalidated', file=M, expect='flagged(confined/(*ngo/plugin.CLIManager).Uninstall)',
      find='func (m *CLIManager) Uninstall(ctx context.Context, name string) error {\n\tif err := validatePluginName(name); err != nil {\n\t\treturn err\n\t}\n', replace='func (m *CLIManager) Uninstall(ctx context.Context, name string) error {\n'),
 dict(name='F6-install-unvalidated', file=M, expect='flagged(confined/(*ngo/plugin.CLIManager).Install)',
      find='\tif err := validatePluginName(pluginName); err != nil {\n\t\treturn nil, nil, err\n\t}\n', replace=''),
 dict(name='validation-error-ignored', file=M, expect='flagged(confined/(*ngo/plugin.CLIManager).Uninstall)',
      find='func (m *CLIManager) Uninstall(ctx context.Context, name string) error {\n\tif err := validatePluginName(name); err != nil {\n\t\treturn err\n\t}\n', replace='func (m *CLIManager) Uninstall(ctx context.Context, name string) error {\n\tif err := validatePluginName(name); err != nil {\n\t\tlog.GetLogger(ctx).Warn(err)\n\t}\n'),
 dict(name='validator-weakened-slash', file=F, expect='flagged(sanitizer/certified)',
      find='`^[a-zA-Z0-9_.-]+$`', replace='`^[a-zA-Z0-9_./-]+$`'),
 dict(name='validator-dots', file=F, expect='flagged(sanitizer/certified)',
      find='\tif fileName == "." || fileName == ".." {\n\t\treturn false\n\t}\n', replace=''),
 dict(name='validate-other-value', file=M, expect='flagged(confined/(*ngo/plugin.CLIManager).Get)',
      find='func (m *CLIManager) Get(ctx context.Context, name string) (plugin.Plugin, error) {\n\tif err := validatePluginName(name); err != nil {', replace='func (m *CLIManager) Get(ctx context.Context, name string) (plugin.Plugin, error) {\n\tif err := validatePluginName(filepath.Base(name)); err != nil {'),
 dict(name='trimmed-after-validation', file=M, expect='flagged(confined/(*ngo/plugin.CLIManager).Uninstall)',
      find='\tpluginDirPath, err := m.pluginFS.SysPath(name)\n\tif err != nil {\n\t\treturn err\n\t}\n\tif _, err := os.Stat(pluginDirPath); err != nil {', replace='\tpluginDirPath, err := m.pluginFS.SysPath(strings.TrimPrefix(name, "notation-"))\n\tif err != nil {\n\t\treturn err\n\t}\n\tif _, err := os.Stat(pluginDirPath); err != nil {',
      edits=[(M, '\t"path/filepath"\n', '\t"path/filepath"\n\t"strings"\n')]),
 dict(name='list-follows-symlinks', file=M, expect='flagged(list/real-directories-only)',
      find='\t\tif !typ.IsDir() || typ&fs.ModeSymlink != 0 {', replace='\t\tif !typ.IsDir() && typ&fs.ModeSymlink == 0 {'),
 dict(name='list-includes-root', file=M, expect='flagged(list/real-directories-only)',
      find='\t\tif dir == "." {\n\t\t\t// Ignore root dir.\n\t\t\treturn nil\n\t\t}\n', replace=''),
 dict(name='removeall-source', file=M, expect='flagged(who-may-call/remove)',
      find='\tif installFromNonDir {\n\t\tif err := file.CopyToDir(pluginExecutableFile, pluginDirPath); err != nil {', replace='\tif installFromNonDir {\n\t\tdefer os.RemoveAll(filepath.Dir(pluginExecutableFile))\n\t\tif err := file.CopyToDir(pluginExecutableFile, pluginDirPath); err != nil {'),
 dict(name='verifier-name-into-path', file=V, expect='flagged(verifier/name-only-to-manager)',
      find='\t\tif v.pluginManager == nil {\n', replace='\t\tif _, statErr := os.Stat(filepath.Join(dir.PluginFS().(interface{ Root() string }).Root(), verificationPluginName)); statErr != nil {\n\t\t\tlogger.Debug(statErr)\n\t\t}\n\t\tif v.pluginManager == nil {\n',
      edits=[(V, '\t"net/http"\n', '\t"net/http"\n\t"os"\n\t"path/filepath"\n')]),
 # benign
 dict(name='benign-inline-validation', file=M, expect='silent',
      find='func (m *CLIManager) Uninstall(ctx context.Context, name string) error {\n\tif err := validatePluginName(name); err != nil {\n\t\treturn err\n\t}\n', replace='func (m *CLIManager) Uninstall(ctx context.Context, name string) error {\n\tif !file.IsValidFileName(name) {\n\t\treturn fmt.Errorf("invalid plugin name %q", name)\n\t}\n'),
 dict(name='benign-error-text', file=M, expect='silent',
      find='return fmt.Errorf("invalid plugin name %q: plugin name needs to follow [a-zA-Z0-9_.-]+ format", name)', replace='return fmt.Errorf("plugin name %q is not a valid file name", name)'),
]

VARIANTS += [
 dict(name='verifier-name-into-path-through-helper', file=V, expect='flagged(verifier/name-only-to-manager)',
      find='\t\tif v.pluginManager == nil {\n', replace='\t\tprobeDir(verificationPluginName)\n\t\tif v.pluginManager == nil {\n',
      edits=[(V, '\t"net/http"\n', '\t"net/http"\n\t"os"\n\t"path/filepath"\n'),
             (V, 'func verifyX509TrustedIdentities(', 'func probeDir(n string) bool {\n\t_, err := os.Stat(filepath.Join(os.TempDir(), n))\n\treturn err == nil\n}\n\nfunc verifyX509TrustedIdentities(')]),
 dict(name='benign-verifier-name-logged-through-helper', file=V, expect='silent',
      find='\t\tif v.pluginManager == nil {\n', replace='\t\tnoteName(ctx, verificationPluginName)\n\t\tif v.pluginManager == nil {\n',
      edits=[(V, 'func verifyX509TrustedIdentities(', 'func noteName(ctx context.Context, n string) {\n\tlog.GetLogger(ctx).Debugf("plugin %q", n)\n}\n\nfunc verifyX509TrustedIdentities(')]),
]

# validating wrapper + unexported worker; the worker's name parameter is validated at every call site (or not)
UN_OLD = 'func (m *CLIManager) Uninstall(ctx context.Context, name string) error {\n\tif err := validatePluginName(name); err != nil {\n\t\treturn err\n\t}\n\tpluginDirPath, err := m.pluginFS.SysPath(name)\n'
UN_WRAP = 'func (m *CLIManager) Uninstall(ctx context.Context, name string) error {\n\tif err := validatePluginName(name); err != nil {\n\t\treturn err\n\t}\n\treturn m.uninstall(name)\n}\n\nfunc (m *CLIManager) uninstall(name string) error {\n\tpluginDirPath, err := m.pluginFS.SysPath(name)\n'
UN_NOWRAP = 'func (m *CLIManager) Uninstall(ctx context.Context, name string) error {\n\treturn m.uninstall(name)\n}\n\nfunc (m *CLIManager) uninstall(name string) error {\n\tpluginDirPath, err := m.pluginFS.SysPath(name)\n'
VARIANTS += [
 dict(name='benign-validating-wrapper-and-worker', file=M, expect='silent', find=UN_OLD, replace=UN_WRAP),
 dict(name='worker-called-without-validation', file=M, expect='flagged(confined/(*ngo/plugin.CLIManager).uninstall)', find=UN_OLD, replace=UN_NOWRAP),
 dict(name='worker-also-called-by-unvalidating-method', file=M, expect='flagged(confined/(*ngo/plugin.CLIManager).uninstall)', find=UN_OLD,
      replace='func (m *CLIManager) Purge(name string) error {\n\treturn m.uninstall(name)\n}\n\n' + UN_WRAP),
 dict(name='worker-gets-a-derived-name', file=M, expect='flagged(confined/(*ngo/plugin.CLIManager).uninstall)', find=UN_OLD,
      replace=UN_WRAP.replace('return m.uninstall(name)', 'return m.uninstall(name + "/../x")')),
]

# a "validate the name, then resolve a path built from it" helper; fine only when the path is built from that very name
RS_GET_OLD = '\tif err := validatePluginName(name); err != nil {\n\t\treturn nil, err\n\t}\n\tpluginPath := path.Join(name, binName(name))\n\tpath, err := m.pluginFS.SysPath(pluginPath)\n'
RS_HELPER = (M, '// validatePluginName checks that name is a single file name', 'func (m *CLIManager) resolveIn(name, relPath string) (string, error) {\n\tif err := validatePluginName(name); err != nil {\n\t\treturn "", err\n\t}\n\treturn m.pluginFS.SysPath(relPath)\n}\n\n// validatePluginName checks that name is a single file name')
VARIANTS += [
 dict(name='benign-validate-then-resolve-helper', file=M, expect='silent', find=RS_GET_OLD,
      replace='\tpath, err := m.resolveIn(name, path.Join(name, binName(name)))\n', edits=[RS_HELPER]),
 dict(name='resolve-helper-path-from-another-value', file=M, expect='flagged(confined/(*ngo/plugin.CLIManager).resolveIn)', find=RS_GET_OLD,
      replace='\tpath, err := m.resolveIn("default", path.Join(name, binName(name)))\n', edits=[RS_HELPER]),
 dict(name='resolve-helper-path-has-extra-component', file=M, expect='flagged(confined/(*ngo/plugin.CLIManager).resolveIn)', find=RS_GET_OLD,
      replace='\tpath, err := m.resolveIn(name, path.Join(name, ctx.Value("sub").(string), binName(name)))\n', edits=[RS_HELPER]),
]

# completeness of the listing: every real sub-directory is recorded, SkipDir only for directories
LS_OLD = '\t\tif !typ.IsDir() || typ&fs.ModeSymlink != 0 {\n\t\t\t// Ignore non-directories and symlinked directories.\n\t\t\treturn nil\n\t\t}\n'
VARIANTS += [
 dict(name='list-skipdir-for-every-entry', file=M, expect='flagged(list/skip-only-directories)', find=LS_OLD,
      replace='\t\tif !typ.IsDir() || typ&fs.ModeSymlink != 0 {\n\t\t\treturn fs.SkipDir\n\t\t}\n'),
 dict(name='list-skipall-after-first', file=M, expect='flagged(list/skip-only-directories)', find='\t\treturn fs.SkipDir\n\t}); err != nil {', replace='\t\treturn fs.SkipAll\n\t}); err != nil {'),
 dict(name='list-drops-long-names', file=M, expect='flagged(list/complete)', find=LS_OLD,
      replace=LS_OLD + '\t\tif len(d.Name()) > 64 {\n\t\t\treturn fs.SkipDir\n\t\t}\n'),
 dict(name='benign-list-symlink-then-dir-tests', file=M, expect='silent', find=LS_OLD,
      replace='\t\tif typ&fs.ModeSymlink != 0 {\n\t\t\treturn nil\n\t\t}\n\t\tif !typ.IsDir() {\n\t\t\treturn nil\n\t\t}\n'),
]

# the validated name kept in a field of a result object handed back by a helper
NM_OLD = '\tif err := validatePluginName(pluginName); err != nil {\n\t\treturn nil, nil, err\n\t}\n\t// validate and get new plugin metadata\n'
def nm_new(call='chosen, err := chooseName(pluginName)'):
    return '\t' + call + '\n\tif err != nil {\n\t\treturn nil, nil, err\n\t}\n\t// validate and get new plugin metadata\n'
def nm_helper(body):
    return (M, '// validatePluginName checks that name is a single file name', 'type chosenName struct{ name string }\n\nfunc chooseName(candidate string) (*chosenName, error) {\n' + body + '}\n\n// validatePluginName checks that name is a single file name')
NM_USE = (M, '\tpluginDirPath, err := m.pluginFS.SysPath(pluginName)\n', '\tpluginDirPath, err := m.pluginFS.SysPath(chosen.name)\n')
VARIANTS += [
 dict(name='benign-validated-name-in-result-object', file=M, expect='silent', find=NM_OLD, replace=nm_new(),
      edits=[nm_helper('\tif err := validatePluginName(candidate); err != nil {\n\t\treturn nil, err\n\t}\n\tc := &chosenName{}\n\tc.name = candidate\n\treturn c, nil\n'), NM_USE]),
 dict(name='result-object-name-stored-before-validation-fails-open', file=M, expect='flagged(confined/(*ngo/plugin.CLIManager).Install)', find=NM_OLD, replace=nm_new(),
      edits=[nm_helper('\tc := &chosenName{}\n\tc.name = candidate\n\tif err := validatePluginName(candidate); err != nil {\n\t\treturn c, nil\n\t}\n\treturn c, nil\n'), NM_USE]),
 dict(name='result-object-name-left-empty-on-a-path', file=M, expect='flagged(confined/(*ngo/plugin.CLIManager).Install)', find=NM_OLD, replace=nm_new(),
      edits=[nm_helper('\tc := &chosenName{}\n\tif len(candidate) > 64 {\n\t\treturn c, nil\n\t}\n\tif err := validatePluginName(candidate); err != nil {\n\t\treturn nil, err\n\t}\n\tc.name = candidate\n\treturn c, nil\n'), NM_USE]),
 dict(name='result-object-name-of-another-value', file=M, expect='flagged(confined/(*ngo/plugin.CLIManager).Install)', find=NM_OLD, replace=nm_new(),
      edits=[nm_helper('\tif err := validatePluginName(candidate); err != nil {\n\t\treturn nil, err\n\t}\n\tc := &chosenName{}\n\tc.name = candidate + "/.."\n\treturn c, nil\n'), NM_USE]),
]

# the entry-type test as one mask comparison; the walk callback as a method value with the list in a receiver field (batch 5)
def ls_mask(cond):
    return '\t\tif ' + cond + ' {\n\t\t\t// Ignore non-directories and symlinked directories.\n\t\t\treturn nil\n\t\t}\n'
LIST_OLD = ('\tvar plugins []string\n\tif err := fs.WalkDir(m.pluginFS, ".", func(dir string, d fs.DirEntry, err error) error {\n\t\tif err != nil {\n\t\t\tif errors.Is(err, os.ErrNotExist) {\n\t\t\t\treturn nil\n\t\t\t}\n\t\t\treturn err\n\t\t}\n'
            '\t\tif dir == "." {\n\t\t\t// Ignore root dir.\n\t\t\treturn nil\n\t\t}\n\t\ttyp := d.Type()\n' + LS_OLD + '\n\t\t// add plugin name\n\t\tplugins = append(plugins, d.Name())\n\t\treturn fs.SkipDir\n\t}); err != nil {\n'
            '\t\treturn nil, PluginDirectoryWalkError(fmt.Errorf("failed to list plugin: %w", err))\n\t}\n\treturn plugins, nil\n}\n')
def list_method(cond, before=''):
    return ('\tvar found pluginDirs\n\tif err := fs.WalkDir(m.pluginFS, ".", found.visit); err != nil {\n\t\treturn nil, PluginDirectoryWalkError(fmt.Errorf("failed to list plugin: %w", err))\n\t}\n\treturn found.names, nil\n}\n\n'
            'type pluginDirs struct {\n\tnames []string\n}\n\nfunc (p *pluginDirs) visit(dir string, d fs.DirEntry, err error) error {\n\tswitch {\n\tcase err != nil:\n\t\tif errors.Is(err, os.ErrNotExist) {\n\t\t\treturn nil\n\t\t}\n\t\treturn err\n'
            '\tcase dir == ".":\n\t\treturn nil\n' + before + '\tcase ' + cond + ':\n\t\treturn nil\n\t}\n\tp.names = append(p.names, d.Name())\n\treturn fs.SkipDir\n}\n')
VARIANTS += [
 dict(name='benign-list-one-mask-comparison', file=M, expect='silent', find=LS_OLD, replace=ls_mask('typ&(fs.ModeDir|fs.ModeSymlink) != fs.ModeDir')),
 dict(name='benign-list-callback-method-value-mask', file=M, expect='silent', find=LIST_OLD, replace=list_method('d.Type()&(fs.ModeDir|fs.ModeSymlink) != fs.ModeDir')),
 dict(name='benign-list-callback-method-value-predicates', file=M, expect='silent', find=LIST_OLD, replace=list_method('!d.Type().IsDir() || d.Type()&fs.ModeSymlink != 0')),
 dict(name='list-mask-without-symlink-bit', file=M, expect='flagged(list/real-directories-only)', find=LS_OLD, replace=ls_mask('typ&fs.ModeDir != fs.ModeDir')),
 dict(name='list-mask-compared-with-both-bits', file=M, expect='flagged(list/)', find=LS_OLD, replace=ls_mask('typ&(fs.ModeDir|fs.ModeSymlink) != fs.ModeDir|fs.ModeSymlink')),
 dict(name='list-mask-test-inverted', file=M, expect='flagged(list/)', find=LS_OLD, replace=ls_mask('typ&(fs.ModeDir|fs.ModeSymlink) == fs.ModeDir')),
 dict(name='list-method-value-records-symlinked-directories', file=M, expect='flagged(list/real-directories-only)', find=LIST_OLD, replace=list_method('d.Type()&fs.ModeDir == 0')),
 dict(name='list-method-value-drops-dotted-names', file=M, expect='flagged(list/complete)', find=LIST_OLD,
      replace=list_method('d.Type()&(fs.ModeDir|fs.ModeSymlink) != fs.ModeDir', before='\tcase len(d.Name()) > 0 && d.Name()[0] == \'.\':\n\t\treturn fs.SkipDir\n')),
]

# guard mutants (pass 7): the walk error of the listing — the callback hands back every walk error that is not not-exist,
# and the lister reports the names only when the walk's own result is nil
WE_OLD = 'error) error {\n\t\tif err != nil {\n\t\t\tif errors.Is(err, os.ErrNotExist) {\n\t\t\t\treturn nil\n\t\t\t}\n\t\t\treturn err\n\t\t}\n'
def we_new(body):
    return 'error) error {\n' + body
WR_OLD = '\t}); err != nil {\n\t\treturn nil, PluginDirectoryWalkError(fmt.Errorf("failed to list plugin: %w", err))\n\t}\n\treturn plugins, nil\n'
WE_HELPERS = (M, '// CLIInstallOptions provides user customized options for plugin installation\n',
              'func walkFailed(e error) bool { return e != nil }\n\nfunc rootMissing(e error) bool { return errors.Is(e, fs.ErrNotExist) }\n\n// CLIInstallOptions provides user customized options for plugin installation\n')
VARIANTS += [
 dict(name='gm-list-walk-error-false-conjunct', file=M, expect='flagged(list/walk-error-handed-back)', find=WE_OLD,
      replace=we_new('\t\tif false && (err != nil) {\n\t\t\tif errors.Is(err, os.ErrNotExist) {\n\t\t\t\treturn nil\n\t\t\t}\n\t\t\treturn err\n\t\t}\n')),
 dict(name='gm-list-walk-error-realistic-conjunct-only-below-the-root', file=M, expect='flagged(list/walk-error-handed-back)', find=WE_OLD,
      replace=we_new('\t\tif dir != "." && err != nil {\n\t\t\tif errors.Is(err, os.ErrNotExist) {\n\t\t\t\treturn nil\n\t\t\t}\n\t\t\treturn err\n\t\t}\n')),
 dict(name='list-walk-error-permission-denied-tolerated', file=M, expect='flagged(list/walk-error-handed-back)', find=WE_OLD,
      replace=we_new('\t\tif err != nil {\n\t\t\tif errors.Is(err, os.ErrNotExist) || errors.Is(err, fs.ErrPermission) {\n\t\t\t\treturn nil\n\t\t\t}\n\t\t\treturn err\n\t\t}\n')),
 dict(name='list-walk-error-answered-with-skipdir', file=M, expect='flagged(list/walk-error-handed-back)', find=WE_OLD,
      replace=we_new('\t\tif err != nil {\n\t\t\tif errors.Is(err, os.ErrNotExist) {\n\t\t\t\treturn nil\n\t\t\t}\n\t\t\treturn fs.SkipDir\n\t\t}\n')),
 dict(name='gm-list-walk-result-false-conjunct', file=M, expect='flagged(list/walk-result-decides)', find=WR_OLD,
      replace=WR_OLD.replace('}); err != nil {', '}); false && (err != nil) {')),
 dict(name='gm-list-walk-result-realistic-conjunct-nothing-collected', file=M, expect='flagged(list/walk-result-decides)', find=WR_OLD,
      replace=WR_OLD.replace('}); err != nil {', '}); len(plugins) == 0 && err != nil {')),
 dict(name='benign-gm-list-walk-error-nested-swapped', file=M, expect='silent', find=WE_OLD,
      replace=we_new('\t\tif nil != err {\n\t\t\tif !errors.Is(err, os.ErrNotExist) {\n\t\t\t\treturn err\n\t\t\t}\n\t\t\treturn nil\n\t\t}\n')),
 dict(name='benign-gm-list-walk-error-not-exist-tested-first', file=M, expect='silent', find=WE_OLD,
      replace=we_new('\t\tif errors.Is(err, fs.ErrNotExist) {\n\t\t\treturn nil\n\t\t}\n\t\tif err != nil {\n\t\t\treturn err\n\t\t}\n')),
 dict(name='benign-gm-list-walk-error-tests-in-helpers', file=M, expect='silent', find=WE_OLD,
      replace=we_new('\t\tif walkFailed(err) {\n\t\t\tif rootMissing(err) {\n\t\t\t\treturn nil\n\t\t\t}\n\t\t\treturn err\n\t\t}\n'), edits=[WE_HELPERS]),
 dict(name='benign-gm-list-walk-error-switch-one-condition', file=M, expect='silent', find=WE_OLD,
      replace=we_new('\t\tswitch {\n\t\tcase err == nil:\n\t\tcase os.IsNotExist(err):\n\t\t\treturn nil\n\t\tdefault:\n\t\t\treturn err\n\t\t}\n')),
 dict(name='benign-gm-list-walk-result-switch-on-named-result', file=M, expect='silent', find=WR_OLD,
      replace='\t})\n\tswitch {\n\tcase nil == walkErr:\n\t\treturn plugins, nil\n\tdefault:\n\t\treturn nil, PluginDirectoryWalkError(fmt.Errorf("failed to list plugin: %w", walkErr))\n\t}\n',
      edits=[(M, '\tif err := fs.WalkDir(m.pluginFS, ".", func(', '\twalkErr := fs.WalkDir(m.pluginFS, ".", func(')]),
]
