P = 'plugin/plugin.go'
L = 'internal/io/limitedwriter.go'
VARIANTS = [
 dict(name='F7-reintroduced', file=P, expect='flagged(command/wait-delay)',
      find='\t// do not wait forever for the output pipes held by plugin\'s descendants\n\tcmd.WaitDelay = pluginWaitDelay\n', replace=''),
 dict(name='wait-delay-zero', file=P, expect='flagged(command/wait-delay)',
      find='const pluginWaitDelay = 5 * time.Second', replace='const pluginWaitDelay = 0 * time.Second'),
 dict(name='wait-delay-conditional', file=P, expect='flagged(command/wait-delay)',
      find='\tcmd.WaitDelay = pluginWaitDelay\n', replace='\tif _, ok := ctx.Deadline(); ok {\n\t\tcmd.WaitDelay = pluginWaitDelay\n\t}\n'),
 dict(name='stderr-uncapped', file=P, expect='flagged(command/stderr-capped)',
      find='\tcmd.Stderr = io.LimitWriter(&stderr, maxPluginOutputSize)\n', replace='\tcmd.Stderr = &stderr\n'),
 dict(name='stdout-cap-huge-var', file=P, expect='flagged(command/stdout-capped)',
      find='\tcmd.Stdout = io.LimitWriter(&stdout, maxPluginOutputSize)\n', replace='\tcmd.Stdout = io.LimitWriter(&stdout, int64(len(req))*1024*1024)\n'),
 dict(name='no-context', file=P, expect='flagged(who-may-call/exec)',
      find='cmd := exec.CommandContext(ctx, name, string(command))', replace='cmd := exec.Command(name, string(command))'),
 dict(name='limit-not-decremented', file=L, expect='flagged(limited-writer/decrement)',
      find='\tl.N -= int64(n)\n', replace=''),
 dict(name='limit-not-cut', file=L, expect='flagged(limited-writer/cut-to-remaining)',
      find='\tif int64(len(p)) > l.N {\n\t\tp = p[:l.N]\n\t}\n', replace=''),
 dict(name='limit-zero-allowed', file=L, expect='flagged(limited-writer/positive-remaining)',
      find='\tif l.N <= 0 {\n\t\treturn 0, ErrLimitExceeded\n\t}\n', replace='\tif l.N < 0 {\n\t\treturn 0, ErrLimitExceeded\n\t}\n'),
 dict(name='decoder-accepts-trailing', file=P, expect='flagged(runner/reply-decodes)',
      find='\tif err = json.Unmarshal(stdout, resp); err != nil {', replace='\tif err = json.NewDecoder(bytes.NewReader(stdout)).Decode(resp); err != nil {'),
 dict(name='process-error-ignored-when-stdout', file=P, expect='flagged(runner/process-error)',
      find='\tif err != nil {\n\t\tlogger.Errorf("plugin %s execution status: %v", req.Command(), err)\n', replace='\tif err != nil && len(stdout) == 0 {\n\t\tlogger.Errorf("plugin %s execution status: %v", req.Command(), err)\n'),
 dict(name='stderr-error-swallowed', file=P, expect='flagged(runner/error-mapping/plugin-error)',
      find='\t\t\tlogger.Errorf("failed to execute the %s command for plugin %s: %s: %w", req.Command(), pluginName, re.Code, re)\n\t\t\treturn re', replace='\t\t\tlogger.Errorf("failed to execute the %s command for plugin %s: %s: %w", req.Command(), pluginName, re.Code, re)\n\t\t\treturn &PluginMalformedError{InnerError: re}'),
 dict(name='metadata-name-unchecked', file=P, expect='flagged(metadata/name-matches)',
      find='\tif metadata.Name != p.name {\n\t\treturn nil, fmt.Errorf("plugin executable file name must be %q instead of %q", binName(metadata.Name), filepath.Base(p.path))\n\t}\n', replace='\t_ = filepath.Base\n'),
 dict(name='metadata-url-optional', file=P, expect='flagged(metadata/non-empty-url)',
      find='\tif metadata.URL == "" {\n\t\treturn errors.New("empty url")\n\t}\n', replace=''),
 dict(name='metadata-contract-version-any', file=P, expect='flagged(metadata/contract-version)',
      find='\tif !slices.Contains(metadata.SupportedContractVersions, plugin.ContractVersion) {', replace='\tif !slices.Contains(metadata.SupportedContractVersions, plugin.ContractVersion) && len(metadata.SupportedContractVersions) > 3 {'),
 dict(name='metadata-validation-skipped', file=P, expect='flagged(metadata/)',
      find='\tif err = validate(&metadata); err != nil {', replace='\tif err = validate(&metadata); err != nil && req.PluginConfig != nil {'),
 dict(name='second-exec-site', file=P, expect='flagged(who-may-call/exec)',
      find='\t// validate file existence\n', replace='\tif out, err := exec.Command(path, "version").Output(); err == nil {\n\t\tlog.GetLogger(ctx).Debug(string(out))\n\t}\n\t// validate file existence\n'),
 # benign
 dict(name='benign-cap-constant-renamed', file=P, expect='silent', all=True,
      find='maxPluginOutputSize', replace='pluginOutputLimit'),
 dict(name='benign-log-text', file=P, expect='silent',
      find='logger.Debugf("Plugin %s response: %s", req.Command(), string(stdout))', replace='logger.Debugf("Plugin %s answered %d bytes", req.Command(), len(stdout))'),
 dict(name='benign-written-counter-form', file=L, expect='silent',
      edits=[(L, '\tN int64     // remaining bytes\n', '\tN int64     // max bytes to write\n\n\twritten int64\n'),
             (L, '\tif l.N <= 0 {', '\tif l.written >= l.N {'),
             (L, '\tif int64(len(p)) > l.N {\n\t\tp = p[:l.N]\n\t}', '\tif int64(len(p)) > l.N-l.written {\n\t\tp = p[:l.N-l.written]\n\t}'),
             (L, '\tl.N -= int64(n)\n', '\tl.written += int64(n)\n')],
      why='the same bound kept as limit + written counter'),
 dict(name='written-counter-cut-against-total', file=L, expect='flagged(limited-writer/cut-to-remaining)',
      edits=[(L, '\tN int64     // remaining bytes\n', '\tN int64     // max bytes to write\n\n\twritten int64\n'),
             (L, '\tif l.N <= 0 {', '\tif l.written >= l.N {'),
             (L, '\tl.N -= int64(n)\n', '\tl.written += int64(n)\n')]),
]

# the error mapping moved into an unexported helper the failing branch returns through
MAP_OLD = '\n\t\tif len(stderr) == 0 {\n\t\t\t// if stderr is empty, it is possible that the plugin is not\n\t\t\t// running properly.\n\t\t\tlogger.Errorf("failed to execute the %s command for plugin %s: %s", req.Command(), pluginName, err)\n\t\t\treturn &PluginExecutableFileError{\n\t\t\t\tInnerError: err,\n\t\t\t}\n\t\t} else {\n\t\t\tvar re proto.RequestError\n\t\t\tjsonErr := json.Unmarshal(stderr, &re)\n\t\t\tif jsonErr != nil {\n\t\t\t\tlogger.Errorf("failed to execute the %s command for plugin %s: %s", req.Command(), pluginName, strings.TrimSuffix(string(stderr), "\\n"))\n\t\t\t\treturn &PluginMalformedError{\n\t\t\t\t\tInnerError: jsonErr,\n\t\t\t\t}\n\t\t\t}\n\t\t\tlogger.Errorf("failed to execute the %s command for plugin %s: %s: %w", req.Command(), pluginName, re.Code, re)\n\t\t\treturn re\n\t\t}\n'
MAP_CALL = '\t\treturn executionError(logger, pluginName, req.Command(), stderr, err)\n'
def map_helper(cond='len(stderr) == 0', ret='re'):
    return ('func executionError(logger log.Logger, pluginName string, command plugin.Command, stderr []byte, execErr error) error {\n'
            '\tif ' + cond + ' {\n\t\tlogger.Errorf("failed to execute the %s command for plugin %s: %s", command, pluginName, execErr)\n\t\treturn &PluginExecutableFileError{InnerError: execErr}\n\t}\n'
            '\tvar re proto.RequestError\n\tif jsonErr := json.Unmarshal(stderr, &re); jsonErr != nil {\n\t\tlogger.Errorf("failed to execute the %s command for plugin %s: %s", command, pluginName, strings.TrimSuffix(string(stderr), "\\n"))\n\t\treturn &PluginMalformedError{InnerError: jsonErr}\n\t}\n'
            '\treturn ' + ret + '\n}\n\n// commander is defined for mocking purposes.')
MAP_HOOK = '// commander is defined for mocking purposes.'
VARIANTS += [
 dict(name='benign-error-mapping-helper', file=P, expect='silent', find=MAP_OLD, replace=MAP_CALL, edits=[(P, MAP_HOOK, map_helper())]),
 dict(name='error-mapping-helper-inverted-stderr-test', file=P, expect='flagged(runner/error-mapping/executable)', find=MAP_OLD, replace=MAP_CALL, edits=[(P, MAP_HOOK, map_helper(cond='len(stderr) != 0'))]),
 dict(name='error-mapping-helper-drops-plugin-error', file=P, expect='flagged(runner/error-mapping/plugin-error)', find=MAP_OLD, replace=MAP_CALL, edits=[(P, MAP_HOOK, map_helper(ret='&PluginMalformedError{InnerError: execErr}'))]),
]

# ---- second pass: the tail of run (everything after executor.Output) cut into helpers at other boundaries, single exit with an
# ---- error local, switch instead of if/else, errors built by constructor functions, mapping as a method of a state struct
TAIL_OLD = ('\tif err != nil {\n\t\tlogger.Errorf("plugin %s execution status: %v", req.Command(), err)\n' + MAP_OLD + '\t}\n\n'
            '\tlogger.Debugf("Plugin %s response: %s", req.Command(), string(stdout))\n\t// deserialize response\n'
            '\tif err = json.Unmarshal(stdout, resp); err != nil {\n\t\tlogger.Errorf("failed to unmarshal plugin %s response: %w", req.Command(), err)\n'
            '\t\treturn &PluginMalformedError{\n\t\t\tMsg:        fmt.Sprintf("failed to unmarshal the response of %s command for plugin %s", req.Command(), pluginName),\n\t\t\tInnerError: err,\n\t\t}\n\t}\n\treturn nil\n}\n')
def decode_helper(ok='return nil', bad='return &PluginMalformedError{\n\t\tMsg:        fmt.Sprintf("failed to unmarshal the response of %s command for plugin %s", command, pluginName),\n\t\tInnerError: err,\n\t}'):
    return ('func decodeResponse(logger log.Logger, pluginName string, command plugin.Command, stdout []byte, resp interface{}) error {\n'
            '\terr := json.Unmarshal(stdout, resp)\n\tif err == nil {\n\t\t' + ok + '\n\t}\n'
            '\tlogger.Errorf("failed to unmarshal plugin %s response: %w", command, err)\n\t' + bad + '\n}\n\n')
def tail_variant(name, expect, tail, helpers, why=None):
    d = dict(name=name, file=P, expect=expect, find=TAIL_OLD, replace=tail + '}\n', edits=[(P, MAP_HOOK, helpers + MAP_HOOK)])
    if why: d['why'] = why
    return d
def helper_only(h):
    # map_helper() ends with the hook comment: strip it
    return h[:-len(MAP_HOOK)]
T_TWO = ('\tif err != nil {\n\t\treturn executionError(logger, pluginName, req.Command(), stderr, err)\n\t}\n\n'
         '\tlogger.Debugf("Plugin %s response: %s", req.Command(), string(stdout))\n\treturn decodeResponse(logger, pluginName, req.Command(), stdout, resp)\n')
# the whole tail in one helper that receives the three results of the commander
def finish_helper(test='execErr != nil'):
    return ('func finish(logger log.Logger, pluginName string, command plugin.Command, stdout, stderr []byte, execErr error, resp interface{}) error {\n'
            '\tif ' + test + ' {\n\t\treturn executionError(logger, pluginName, command, stderr, execErr)\n\t}\n'
            '\treturn decodeResponse(logger, pluginName, command, stdout, resp)\n}\n\n')
T_FINISH = '\treturn finish(logger, pluginName, req.Command(), stdout, stderr, err, resp)\n'
# single exit with an error local, decided by a switch
def t_single(first='err == nil', second='len(stderr) == 0'):
    a = {'err == nil': 'result = decodeResponse(logger, pluginName, req.Command(), stdout, resp)',
         'len(stderr) == 0': 'result = &PluginExecutableFileError{InnerError: err}'}
    return ('\tvar result error\n\tswitch {\n\tcase ' + first + ':\n\t\t' + a[first] + '\n\tcase ' + second + ':\n\t\t' + a[second] + '\n'
            '\tdefault:\n\t\tresult = stderrError(stderr)\n\t}\n\treturn result\n')
KEEP_STRINGS = 'var _ = strings.TrimSuffix // the import stays in use\n\n'
def stderr_helper(ret='re'):
    return ('func stderrError(stderr []byte) error {\n\tvar re proto.RequestError\n\tif jsonErr := json.Unmarshal(stderr, &re); jsonErr != nil {\n'
            '\t\treturn &PluginMalformedError{InnerError: jsonErr}\n\t}\n\treturn ' + ret + '\n}\n\n' + KEEP_STRINGS)
# errors built by constructor functions (one returning the concrete type, one returning error)
CTORS = ('func newMalformed(msg string, inner error) *PluginMalformedError {\n\treturn &PluginMalformedError{Msg: msg, InnerError: inner}\n}\n\n'
         'func newNotExecutable(inner error) error {\n\treturn &PluginExecutableFileError{InnerError: inner}\n}\n\n' + KEEP_STRINGS)
def t_ctors(execv='newNotExecutable(err)'):
    return ('\tif err != nil {\n\t\tif len(stderr) == 0 {\n\t\t\treturn ' + execv + '\n\t\t}\n\t\tvar re proto.RequestError\n'
            '\t\tif jsonErr := json.Unmarshal(stderr, &re); jsonErr != nil {\n\t\t\treturn newMalformed("", jsonErr)\n\t\t}\n\t\treturn re\n\t}\n'
            '\tif err = json.Unmarshal(stdout, resp); err != nil {\n\t\treturn newMalformed(fmt.Sprintf("failed to unmarshal the response of %s command for plugin %s", req.Command(), pluginName), err)\n\t}\n\treturn nil\n')
# mapping as a method of a small state struct
def mapper(cond='len(stderr) == 0'):
    return ('type replyMapper struct {\n\tlogger     log.Logger\n\tpluginName string\n\tcommand    plugin.Command\n}\n\n'
            'func (m replyMapper) failed(stderr []byte, execErr error) error {\n\tif ' + cond + ' {\n\t\tm.logger.Errorf("failed to execute the %s command for plugin %s: %s", m.command, m.pluginName, execErr)\n'
            '\t\treturn &PluginExecutableFileError{InnerError: execErr}\n\t}\n\tvar re proto.RequestError\n\tif jsonErr := json.Unmarshal(stderr, &re); jsonErr != nil {\n'
            '\t\treturn &PluginMalformedError{InnerError: jsonErr}\n\t}\n\treturn re\n}\n\n'
            'func (m replyMapper) succeeded(stdout []byte, resp interface{}) error {\n\tif err := json.Unmarshal(stdout, resp); err != nil {\n'
            '\t\treturn &PluginMalformedError{Msg: fmt.Sprintf("failed to unmarshal the response of %s command for plugin %s", m.command, m.pluginName), InnerError: err}\n\t}\n\treturn nil\n}\n\n' + KEEP_STRINGS)
T_MAPPER = ('\tm := replyMapper{logger: logger, pluginName: pluginName, command: req.Command()}\n\tif err != nil {\n\t\treturn m.failed(stderr, err)\n\t}\n\treturn m.succeeded(stdout, resp)\n')
# the helper's result held in a local and tested before it is returned
T_LOCAL = ('\tif err != nil {\n\t\tmapped := executionError(logger, pluginName, req.Command(), stderr, err)\n\t\tlogger.Errorf("plugin %s execution status: %v", req.Command(), err)\n\t\treturn mapped\n\t}\n'
           '\tif decodeErr := decodeResponse(logger, pluginName, req.Command(), stdout, resp); decodeErr != nil {\n\t\treturn decodeErr\n\t}\n\treturn nil\n')
EXEC_H = helper_only(map_helper())
VARIANTS += [
 tail_variant('benign-decode-and-mapping-helpers', 'silent', T_TWO, EXEC_H + decode_helper(), why='both arms of the tail returned through helpers (held-out refactoring 1)'),
 tail_variant('decode-helper-swallows-error', 'flagged(runner/reply-decodes)', T_TWO, EXEC_H + decode_helper(bad='return nil')),
 tail_variant('decode-helper-untyped-error', 'flagged(runner/error-mapping/malformed-stdout)', T_TWO, EXEC_H + decode_helper(bad='return fmt.Errorf("failed to unmarshal the response of %s command for plugin %s: %w", command, pluginName, err)')),
 tail_variant('decode-helper-inverted', 'flagged(runner/)', T_TWO, EXEC_H + decode_helper(ok='return &PluginMalformedError{InnerError: err}', bad='return nil')),
 tail_variant('benign-whole-tail-helper', 'silent', T_FINISH, EXEC_H + decode_helper() + finish_helper(), why='the process-error test itself sits in the helper'),
 tail_variant('whole-tail-helper-ignores-error-when-stdout', 'flagged(runner/process-error)', T_FINISH, EXEC_H + decode_helper() + finish_helper(test='execErr != nil && len(stdout) == 0')),
 tail_variant('whole-tail-helper-swapped-streams', 'flagged(runner/)', '\treturn finish(logger, pluginName, req.Command(), stderr, stdout, err, resp)\n', EXEC_H + decode_helper() + finish_helper()),
 tail_variant('benign-single-exit-switch', 'silent', t_single(), decode_helper() + stderr_helper(), why='single exit with an error local assigned in a switch'),
 tail_variant('single-exit-switch-empty-stderr-first', 'flagged(runner/)', t_single(first='len(stderr) == 0', second='err == nil'), decode_helper() + stderr_helper()),
 tail_variant('single-exit-switch-drops-plugin-error', 'flagged(runner/error-mapping/plugin-error)', t_single(), decode_helper() + stderr_helper(ret='&PluginMalformedError{InnerError: re}')),
 tail_variant('benign-error-constructors', 'silent', t_ctors(), CTORS, why='error objects built by constructor functions'),
 tail_variant('error-constructor-passes-raw-error', 'flagged(runner/error-mapping/executable)', t_ctors(execv='passThrough(err)'), CTORS + 'func passThrough(inner error) error {\n\treturn inner\n}\n\n'),
 tail_variant('benign-mapper-struct', 'silent', T_MAPPER, mapper(), why='mapping as methods of a state struct'),
 tail_variant('mapper-struct-inverted-stderr-test', 'flagged(runner/error-mapping/executable)', T_MAPPER, mapper(cond='len(stderr) != 0')),
 tail_variant('benign-helper-result-in-local', 'silent', T_LOCAL, EXEC_H + decode_helper(), why='helper result held in a local before it is returned'),
 tail_variant('helper-result-wrapped', 'flagged(runner/error-mapping/)', T_TWO.replace('return executionError(logger, pluginName, req.Command(), stderr, err)', 'return fmt.Errorf("plugin failed: %w", executionError(logger, pluginName, req.Command(), stderr, err))'), EXEC_H + decode_helper()),
]

# ---- second pass, (a) typestate: the command configured by a helper / built by a constructor function
OUT_OLD = ('\tvar stdout, stderr bytes.Buffer\n\tcmd := exec.CommandContext(ctx, name, string(command))\n\tcmd.Stdin = bytes.NewReader(req)\n'
           '\t// The limit writer will be handled by the caller in run() by comparing the\n\t// bytes written with the expected length of the bytes.\n'
           '\tcmd.Stderr = io.LimitWriter(&stderr, maxPluginOutputSize)\n\tcmd.Stdout = io.LimitWriter(&stdout, maxPluginOutputSize)\n'
           '\t// do not wait forever for the output pipes held by plugin\'s descendants\n\tcmd.WaitDelay = pluginWaitDelay\n')
VAL_HOOK = '// validate checks if the metadata is correctly populated.'
def configure_helper(delay='\tcmd.WaitDelay = pluginWaitDelay\n', errw='io.LimitWriter(stderr, maxPluginOutputSize)'):
    return ('func configure(cmd *exec.Cmd, req []byte, stdout, stderr *bytes.Buffer) {\n\tcmd.Stdin = bytes.NewReader(req)\n'
            '\tcmd.Stderr = ' + errw + '\n\tcmd.Stdout = io.LimitWriter(stdout, maxPluginOutputSize)\n' + delay + '}\n\n')
def out_variant(name, expect, body, helpers, extra=(), why=None):
    d = dict(name=name, file=P, expect=expect, find=OUT_OLD, replace=body, edits=[(P, VAL_HOOK, helpers + VAL_HOOK)] + list(extra))
    if why: d['why'] = why
    return d
B_CONF = '\tvar stdout, stderr bytes.Buffer\n\tcmd := exec.CommandContext(ctx, name, string(command))\n\tconfigure(cmd, req, &stdout, &stderr)\n'
def ctor(ctx='ctx', sig='', outw='io.LimitWriter(stdout, maxPluginOutputSize)', errw='io.LimitWriter(stderr, maxPluginOutputSize)'):
    return ('func newCommand(ctx context.Context, name string, command plugin.Command, req []byte, stdout, stderr *bytes.Buffer' + sig + ') *exec.Cmd {\n'
            '\tcmd := exec.CommandContext(' + ctx + ', name, string(command))\n\tcmd.Stdin = bytes.NewReader(req)\n'
            '\tcmd.Stderr = ' + errw + '\n\tcmd.Stdout = ' + outw + '\n\tcmd.WaitDelay = pluginWaitDelay\n\treturn cmd\n}\n\n')
B_CTOR = '\tvar stdout, stderr bytes.Buffer\n\tcmd := newCommand(ctx, name, command, req, &stdout, &stderr)\n'
VARIANTS += [
 out_variant('benign-cmd-configured-by-helper', 'silent', B_CONF, configure_helper(), why='the fields of the command set by an unexported helper called before Run'),
 out_variant('cmd-helper-wait-delay-conditional', 'flagged(command/wait-delay)', B_CONF, configure_helper(delay='\tif len(req) > 0 {\n\t\tcmd.WaitDelay = pluginWaitDelay\n\t}\n')),
 out_variant('cmd-helper-called-conditionally', 'flagged(command/)', B_CONF.replace('\tconfigure(cmd, req, &stdout, &stderr)\n', '\tif len(req) > 0 {\n\t\tconfigure(cmd, req, &stdout, &stderr)\n\t}\n'), configure_helper()),
 out_variant('cmd-helper-stderr-uncapped', 'flagged(command/stderr-capped)', B_CONF, configure_helper(errw='stderr')),
 out_variant('cmd-field-overwritten-after-helper', 'flagged(command/stderr-capped)', B_CONF + '\tcmd.Stderr = &stderr\n', configure_helper()),
 out_variant('cmd-helper-called-after-run', 'flagged(command/)', '\tvar stdout, stderr bytes.Buffer\n\tcmd := exec.CommandContext(ctx, name, string(command))\n\tdefer configure(cmd, req, &stdout, &stderr)\n', configure_helper()),
 out_variant('benign-cmd-built-by-constructor', 'silent', B_CTOR, ctor(), why='the command created and configured by a constructor function'),
 out_variant('cmd-constructor-background-context', 'flagged(command/context)', B_CTOR, ctor(ctx='context.Background()')),
 out_variant('cmd-constructor-cap-from-request', 'flagged(command/stdout-capped)', B_CTOR.replace('&stderr)', '&stderr, int64(len(req))*1024*1024)'), ctor(sig=', limit int64', outw='io.LimitWriter(stdout, limit)')),
 out_variant('cmd-constructor-stderr-uncapped', 'flagged(command/stderr-capped)', B_CTOR, ctor(errw='stderr')),
 out_variant('cmd-constructor-shared-buffer', 'flagged(command/stdout-capped)', '\tvar stderr bytes.Buffer\n\tstdout := &sharedOutput\n\tstdout.Reset()\n\tcmd := newCommand(ctx, name, command, req, stdout, &stderr)\n', 'var sharedOutput bytes.Buffer\n\n' + ctor()),
]

# ---- the commander's ways of returning: single exit with named results, the timeout wrapping in a helper, Start + Wait
OUTF_OLD = 'func (c execCommander) Output(ctx context.Context, name string, command plugin.Command, req []byte) ([]byte, []byte, error) {\n'
OUTF_NAMED = 'func (c execCommander) Output(ctx context.Context, name string, command plugin.Command, req []byte) (out []byte, errOut []byte, err error) {\n'
RUN_OLD = ('\terr := cmd.Run()\n\tif err != nil {\n\t\tif errors.Is(ctx.Err(), context.DeadlineExceeded) {\n'
           '\t\t\treturn nil, stderr.Bytes(), fmt.Errorf("\'%s %s\' command execution timeout: %w", name, string(command), err)\n\t\t}\n'
           '\t\treturn nil, stderr.Bytes(), err\n\t}\n\treturn stdout.Bytes(), nil, nil\n')
def single_exit(extra=''):
    return ('\terr = cmd.Run()\n\tif err == nil {\n\t\tout = stdout.Bytes()\n\t} else {\n\t\terrOut = stderr.Bytes()\n' + extra +
            '\t\tif errors.Is(ctx.Err(), context.DeadlineExceeded) {\n\t\t\terr = fmt.Errorf("\'%s %s\' command execution timeout: %w", name, string(command), err)\n\t\t}\n\t}\n\treturn out, errOut, err\n')
def timeout_helper(fall='err'):
    return ('func timeoutError(ctx context.Context, name string, command plugin.Command, err error) error {\n\tif errors.Is(ctx.Err(), context.DeadlineExceeded) {\n'
            '\t\treturn fmt.Errorf("\'%s %s\' command execution timeout: %w", name, string(command), err)\n\t}\n\treturn ' + fall + '\n}\n\n')
R_TIMEOUT = '\tif err := cmd.Run(); err != nil {\n\t\treturn nil, stderr.Bytes(), timeoutError(ctx, name, command, err)\n\t}\n\treturn stdout.Bytes(), nil, nil\n'
def start_wait(wait='\terr := cmd.Wait()\n', pre=''):
    return ('\tif err := cmd.Start(); err != nil {\n\t\treturn nil, stderr.Bytes(), err\n\t}\n' + pre + wait + '\tif err != nil {\n\t\tif errors.Is(ctx.Err(), context.DeadlineExceeded) {\n'
            '\t\t\treturn nil, stderr.Bytes(), fmt.Errorf("\'%s %s\' command execution timeout: %w", name, string(command), err)\n\t\t}\n'
            '\t\treturn nil, stderr.Bytes(), err\n\t}\n\treturn stdout.Bytes(), nil, nil\n')
VARIANTS += [
 dict(name='benign-output-single-exit', file=P, expect='silent', find=RUN_OLD, replace=single_exit(), edits=[(P, OUTF_OLD, OUTF_NAMED)], why='named results, one return'),
 dict(name='output-single-exit-success-without-exit-status', file=P, expect='flagged(runner/output-on-success)', find=RUN_OLD, edits=[(P, OUTF_OLD, OUTF_NAMED)],
      replace=single_exit(extra='\t\tif len(errOut) == 0 {\n\t\t\treturn stdout.Bytes(), nil, nil\n\t\t}\n')),
 dict(name='output-single-exit-error-cleared', file=P, expect='flagged(runner/output-on-success)', find=RUN_OLD, edits=[(P, OUTF_OLD, OUTF_NAMED)],
      replace=single_exit().replace('\treturn out, errOut, err\n', '\tif len(errOut) == 0 {\n\t\tout, err = stdout.Bytes(), nil\n\t}\n\treturn out, errOut, err\n')),
 dict(name='benign-output-timeout-helper', file=P, expect='silent', find=RUN_OLD, replace=R_TIMEOUT, edits=[(P, VAL_HOOK, timeout_helper() + VAL_HOOK)], why='the failing exit returns through a helper that wraps or forwards the error'),
 dict(name='output-timeout-helper-drops-error', file=P, expect='flagged(runner/output-on-success)', find=RUN_OLD, replace=R_TIMEOUT, edits=[(P, VAL_HOOK, timeout_helper(fall='nil') + VAL_HOOK)]),
 dict(name='benign-start-then-wait', file=P, expect='silent', find=RUN_OLD, replace=start_wait(), why='Run spelled Start + Wait, both errors fail-closed'),
 dict(name='start-then-wait-error-ignored', file=P, expect='flagged(runner/output-on-success)', find=RUN_OLD, replace=start_wait(wait='\t_ = cmd.Wait()\n\tvar err error\n')),
 dict(name='start-then-wait-delay-set-late', file=P, expect='flagged(command/wait-delay)', find=RUN_OLD, replace=start_wait(pre='\tcmd.WaitDelay = pluginWaitDelay\n'),
      edits=[(P, '\t// do not wait forever for the output pipes held by plugin\'s descendants\n\tcmd.WaitDelay = pluginWaitDelay\n', '')]),
]

# ---- the runner behind a wrapper that forwards the commander's three results
INV_OLD = '\tstdout, stderr, err := executor.Output(ctx, pluginPath, req.Command(), data)\n'
INV_NEW = '\tstdout, stderr, err := execute(ctx, logger, pluginPath, req.Command(), data)\n'
def exec_wrapper(ret='return stdout, stderr, err'):
    return ('func execute(ctx context.Context, logger log.Logger, pluginPath string, command plugin.Command, data []byte) ([]byte, []byte, error) {\n'
            '\tlogger.Debugf("executing %s %s", pluginPath, command)\n\tstdout, stderr, err := executor.Output(ctx, pluginPath, command, data)\n'
            '\tif err != nil {\n\t\tlogger.Errorf("plugin %s execution status: %v", command, err)\n\t}\n\t' + ret + '\n}\n\n')
VARIANTS += [
 dict(name='benign-invoke-wrapper', file=P, expect='silent', find=INV_OLD, replace=INV_NEW, edits=[(P, MAP_HOOK, exec_wrapper() + MAP_HOOK)], why='the commander is invoked by a wrapper that logs and forwards the three results'),
 dict(name='invoke-wrapper-clears-error', file=P, expect='flagged(runner/)', find=INV_OLD, replace=INV_NEW,
      edits=[(P, MAP_HOOK, exec_wrapper(ret='if len(stdout) > 0 {\n\t\treturn stdout, stderr, nil\n\t}\n\treturn stdout, stderr, err') + MAP_HOOK)]),
 dict(name='invoke-wrapper-drops-stderr', file=P, expect='flagged(runner/)', find=INV_OLD, replace=INV_NEW,
      edits=[(P, MAP_HOOK, exec_wrapper(ret='if len(stderr) > 4096 {\n\t\treturn stdout, nil, err\n\t}\n\treturn stdout, stderr, err') + MAP_HOOK)]),
 dict(name='invoke-wrapper-second-caller', file=P, expect='flagged(runner/)', find=INV_OLD, replace=INV_NEW,
      edits=[(P, MAP_HOOK, exec_wrapper() + 'func (p *CLIPlugin) rawVersion(ctx context.Context) string {\n\tout, _, _ := execute(ctx, log.GetLogger(ctx), p.path, plugin.Command("version"), nil)\n\treturn string(out)\n}\n\n' + MAP_HOOK)]),
]

# ---- stderr decoded by a wrapper of json.Unmarshal; other orders of the same decisions
def t_wrapped(src='stderr'):
    return ('\tif err != nil {\n\t\tif len(stderr) == 0 {\n\t\t\treturn &PluginExecutableFileError{InnerError: err}\n\t\t}\n\t\tre, jsonErr := parseRequestError(' + src + ')\n'
            '\t\tif jsonErr != nil {\n\t\t\treturn &PluginMalformedError{InnerError: jsonErr}\n\t\t}\n\t\treturn re\n\t}\n'
            '\tif err = json.Unmarshal(stdout, resp); err != nil {\n\t\treturn &PluginMalformedError{Msg: fmt.Sprintf("failed to unmarshal the response of %s command for plugin %s", req.Command(), pluginName), InnerError: err}\n\t}\n\treturn nil\n')
def parse_wrapper(ret='return re, err'):
    return 'func parseRequestError(b []byte) (proto.RequestError, error) {\n\tvar re proto.RequestError\n\terr := json.Unmarshal(b, &re)\n\t' + ret + '\n}\n\n' + KEEP_STRINGS
def t_success_first(test='err == nil'):
    return ('\tif ' + test + ' {\n\t\tif err = json.Unmarshal(stdout, resp); err != nil {\n\t\t\treturn &PluginMalformedError{Msg: fmt.Sprintf("failed to unmarshal the response of %s command for plugin %s", req.Command(), pluginName), InnerError: err}\n\t\t}\n\t\treturn nil\n\t}\n'
            '\tif len(stderr) > 0 {\n\t\tvar re proto.RequestError\n\t\tif jsonErr := json.Unmarshal(stderr, &re); jsonErr != nil {\n\t\t\treturn &PluginMalformedError{InnerError: jsonErr}\n\t\t}\n\t\treturn re\n\t}\n\treturn &PluginExecutableFileError{InnerError: err}\n')
T_ERR_REUSED = ('\tif err != nil {\n\t\tif len(stderr) == 0 {\n\t\t\terr = &PluginExecutableFileError{InnerError: err}\n\t\t} else {\n\t\t\tvar re proto.RequestError\n'
                '\t\t\tif jsonErr := json.Unmarshal(stderr, &re); jsonErr != nil {\n\t\t\t\terr = &PluginMalformedError{InnerError: jsonErr}\n\t\t\t} else {\n\t\t\t\terr = re\n\t\t\t}\n\t\t}\n'
                '\t} else if err = json.Unmarshal(stdout, resp); err != nil {\n\t\terr = &PluginMalformedError{Msg: fmt.Sprintf("failed to unmarshal the response of %s command for plugin %s", req.Command(), pluginName), InnerError: err}\n\t}\n\treturn err\n')
VARIANTS += [
 tail_variant('benign-stderr-decode-wrapper', 'silent', t_wrapped(), parse_wrapper(), why='stderr decoded by a helper that returns (object, the decoder\'s error)'),
 tail_variant('stderr-decode-wrapper-hides-error', 'flagged(runner/error-mapping/)', t_wrapped(), parse_wrapper(ret='if err != nil && len(b) > 1024 {\n\t\treturn re, nil\n\t}\n\treturn re, err')),
 tail_variant('stderr-decode-wrapper-fed-stdout', 'flagged(runner/error-mapping/)', t_wrapped(src='stdout'), parse_wrapper()),
 tail_variant('benign-success-first', 'silent', t_success_first(), KEEP_STRINGS, why='the success arm first, the stderr test positive'),
 tail_variant('success-first-ignores-error-when-stdout', 'flagged(runner/process-error)', t_success_first(test='err == nil || len(stdout) > 0'), KEEP_STRINGS),
 tail_variant('benign-single-exit-error-reused', 'silent', T_ERR_REUSED, KEEP_STRINGS, why='one return; the error variable is overwritten with the mapped error'),
 tail_variant('single-exit-error-reused-plugin-error-dropped', 'flagged(runner/error-mapping/plugin-error)', T_ERR_REUSED.replace('\t\t\t\terr = re\n', '\t\t\t\terr = &PluginMalformedError{InnerError: re}\n'), KEEP_STRINGS),
]

# ---- the cut of the limited writer spelled with the builtin min
CUT_OLD = '\tif int64(len(p)) > l.N {\n\t\tp = p[:l.N]\n\t}\n\tn, err := l.W.Write(p)\n'
VARIANTS += [
 dict(name='benign-writer-cut-with-min', file=L, expect='silent', find=CUT_OLD, replace='\tn, err := l.W.Write(p[:min(int64(len(p)), l.N)])\n', why='p[:min(len(p), remaining)]'),
 dict(name='writer-cut-with-max', file=L, expect='flagged(limited-writer/cut-to-remaining)', find=CUT_OLD, replace='\tn, err := l.W.Write(p[:max(int64(len(p)), l.N)])\n'),
 dict(name='writer-cut-with-min-of-cap', file=L, expect='flagged(limited-writer/cut-to-remaining)', find=CUT_OLD, replace='\tn, err := l.W.Write(p[:min(int64(len(p)), int64(cap(p)))])\n'),
]

# ---- stdout decoded through a helper that only forwards json.Unmarshal's error
DEC_OLD = '\tif err = json.Unmarshal(stdout, resp); err != nil {\n\t\tlogger.Errorf("failed to unmarshal plugin %s response: %w", req.Command(), err)\n'
def dec_new(src='stdout'):
    return '\tif err = decodeInto(logger, ' + src + ', resp); err != nil {\n\t\tlogger.Errorf("failed to unmarshal plugin %s response: %w", req.Command(), err)\n'
def dec_into(body='err := json.Unmarshal(b, v)'):
    return 'func decodeInto(logger log.Logger, b []byte, v interface{}) error {\n\tlogger.Debugf("decoding %d bytes", len(b))\n\t' + body + '\n\treturn err\n}\n\n'
VARIANTS += [
 dict(name='benign-reply-decode-forwarder', file=P, expect='silent', find=DEC_OLD, replace=dec_new(), edits=[(P, MAP_HOOK, dec_into() + MAP_HOOK)], why='json.Unmarshal(stdout, resp) behind a helper that returns its error'),
 dict(name='reply-decode-forwarder-streaming', file=P, expect='flagged(runner/reply-decodes)', find=DEC_OLD, replace=dec_new(), edits=[(P, MAP_HOOK, dec_into(body='err := json.NewDecoder(bytes.NewReader(b)).Decode(v)') + MAP_HOOK)]),
 dict(name='reply-decode-forwarder-fed-stderr', file=P, expect='flagged(runner/)', find=DEC_OLD, replace=dec_new(src='stderr'), edits=[(P, MAP_HOOK, dec_into() + MAP_HOOK)]),
]

# ---- third pass, (d): the four "empty <field>" branches of validate as ONE loop over a fixed table of values
CHAIN_OLD = ('\tif metadata.Name == "" {\n\t\treturn errors.New("empty name")\n\t}\n\tif metadata.Description == "" {\n\t\treturn errors.New("empty description")\n\t}\n'
             '\tif metadata.Version == "" {\n\t\treturn errors.New("empty version")\n\t}\n\tif metadata.URL == "" {\n\t\treturn errors.New("empty url")\n\t}\n')
ROWS4 = [('name', 'metadata.Name'), ('description', 'metadata.Description'), ('version', 'metadata.Version'), ('url', 'metadata.URL')]
LOOP_RANGE = '\tfor _, m := range mandatory {\n\t\tif m.value == "" {\n\t\t\treturn errors.New("empty " + m.field)\n\t\t}\n\t}\n'
def table(rows=ROWS4, head='[...]struct{ field, value string }', loop=LOOP_RANGE, between=''):
    return ('\tmandatory := ' + head + '{\n' + ''.join('\t\t{"%s", %s},\n' % r for r in rows) + '\t}\n' + between + loop)
def tab_variant(name, expect, body, helpers='', why=None):
    d = dict(name=name, file=P, expect=expect, find=CHAIN_OLD, replace=body)
    if helpers: d['edits'] = [(P, VAL_HOOK, helpers + VAL_HOOK)]
    if why: d['why'] = why
    return d
LOOP_INDEX = '\tfor i := 0; i < len(mandatory); i++ {\n\t\tif mandatory[i].value == "" {\n\t\t\treturn errors.New("empty " + mandatory[i].field)\n\t\t}\n\t}\n'
LOOP_CONTINUE = '\tfor _, m := range mandatory {\n\t\tif m.value != "" {\n\t\t\tcontinue\n\t\t}\n\t\treturn errors.New("empty " + m.field)\n\t}\n'
PARALLEL = ('\tnames := [...]string{"name", "description", "version", "url"}\n\tvalues := [...]string{metadata.Name, metadata.Description, metadata.Version, metadata.URL}\n'
            '\tfor i, v := range values {\n\t\tif v == "" {\n\t\t\treturn errors.New("empty " + names[i])\n\t\t}\n\t}\n')
H_CALL = '\tif err := checkMandatory(metadata); err != nil {\n\t\treturn err\n\t}\n'
def h_table(**kw):
    return 'func checkMandatory(metadata *plugin.GetMetadataResponse) error {\n' + table(**kw) + '\treturn nil\n}\n\n'
FIELD_T = 'type mandatoryField struct{ name, value string }\n\n'
def require_all(test='f.value == ""', fail='return errors.New("empty " + f.name)', rng='fields'):
    return (FIELD_T + 'func requireAll(fields ...mandatoryField) error {\n\tfor _, f := range ' + rng + ' {\n\t\tif ' + test + ' {\n\t\t\t' + fail + '\n\t\t}\n\t}\n\treturn nil\n}\n\n')
def v_call(rows=ROWS4):
    return '\tif err := requireAll(' + ', '.join('mandatoryField{"%s", %s}' % r for r in rows) + '); err != nil {\n\t\treturn err\n\t}\n'
ALL_SET = 'func allSet(values ...string) bool {\n\tfor _, v := range values {\n\t\tif v == "" {\n\t\t\treturn false\n\t\t}\n\t}\n\treturn true\n}\n\n'
B_ALL_SET = '\tif !allSet(metadata.Name, metadata.Description, metadata.Version, metadata.URL) {\n\t\treturn errors.New("empty mandatory field")\n\t}\n'
VARIANTS += [
 tab_variant('benign-mandatory-table-array-range', 'silent', table(), why='the four branches as one range loop over a local array of {field, value} rows'),
 tab_variant('benign-mandatory-table-slice-range', 'silent', table(head='[]struct{ field, value string }'), why='... over a slice literal'),
 tab_variant('benign-mandatory-table-index-loop', 'silent', table(loop=LOOP_INDEX), why='... with a three-clause index loop'),
 tab_variant('benign-mandatory-table-slice-index-loop', 'silent', table(head='[]struct{ field, value string }', loop=LOOP_INDEX), why='... index loop over a slice literal'),
 tab_variant('benign-mandatory-table-continue', 'silent', table(loop=LOOP_CONTINUE), why='... the passing rows continue, the failure is the fall-through'),
 tab_variant('benign-mandatory-parallel-arrays', 'silent', PARALLEL, why='values and reported names in two parallel arrays'),
 tab_variant('benign-mandatory-table-in-helper', 'silent', H_CALL, h_table(), why='the table loop in a helper whose error validate returns'),
 tab_variant('benign-mandatory-variadic-helper', 'silent', v_call(), require_all(), why='the rows built by the caller, the loop in a variadic helper'),
 tab_variant('benign-mandatory-variadic-bool-helper', 'silent', B_ALL_SET, ALL_SET, why='the values handed to a variadic predicate'),
 # the same shapes with the property broken
 tab_variant('table-row-missing', 'flagged(metadata/non-empty-url)', table(rows=ROWS4[:3])),
 tab_variant('table-range-over-prefix', 'flagged(metadata/non-empty-url)', table(head='[]struct{ field, value string }', loop=LOOP_RANGE.replace('range mandatory', 'range mandatory[:3]'))),
 tab_variant('table-wrong-column-tested', 'flagged(metadata/non-empty-)', table(loop=LOOP_RANGE.replace('m.value == ""', 'm.field == ""'))),
 tab_variant('table-loop-breaks-early', 'flagged(metadata/non-empty-)', table(loop=LOOP_RANGE.replace('\t\tif m.value', '\t\tif m.field == "version" {\n\t\t\tbreak\n\t\t}\n\t\tif m.value'))),
 tab_variant('table-loop-returns-success-early', 'flagged(metadata/non-empty-)', table(loop=LOOP_RANGE.replace('\t\tif m.value', '\t\tif m.field == "url" {\n\t\t\treturn nil\n\t\t}\n\t\tif m.value'))),
 tab_variant('table-loop-does-not-fail', 'flagged(metadata/non-empty-)', table(loop=LOOP_RANGE.replace('return errors.New("empty " + m.field)', 'continue'))),
 tab_variant('table-row-skipped-by-continue', 'flagged(metadata/non-empty-)', table(loop=LOOP_RANGE.replace('\t\tif m.value', '\t\tif m.field == "description" {\n\t\t\tcontinue\n\t\t}\n\t\tif m.value'))),
 tab_variant('table-cell-overwritten', 'flagged(metadata/non-empty-)', table(between='\tif len(metadata.Capabilities) > 1 {\n\t\tmandatory[3].value = "n/a"\n\t}\n')),
 tab_variant('table-index-loop-starts-at-one', 'flagged(metadata/non-empty-)', table(loop=LOOP_INDEX.replace('i := 0', 'i := 1'))),
 tab_variant('table-index-loop-bound-short', 'flagged(metadata/non-empty-)', table(loop=LOOP_INDEX.replace('i < len(mandatory)', 'i < len(mandatory)-1'))),
 tab_variant('table-index-loop-step-two', 'flagged(metadata/non-empty-)', table(loop=LOOP_INDEX.replace('i++', 'i += 2'))),
 tab_variant('table-index-loop-other-row', 'flagged(metadata/non-empty-)', table(loop=LOOP_INDEX.replace('mandatory[i].value == ""', 'mandatory[i/2].value == ""'))),
 tab_variant('table-values-stale', 'flagged(metadata/non-empty-)', table(between='\tmetadata.URL = strings.TrimSpace(metadata.URL)\n')),
 tab_variant('table-helper-result-ignored', 'flagged(metadata/non-empty-)', '\tif err := checkMandatory(metadata); err != nil && len(metadata.Capabilities) == 0 {\n\t\treturn err\n\t}\n', h_table()),
 tab_variant('variadic-helper-row-missing', 'flagged(metadata/non-empty-version)', v_call(rows=[ROWS4[0], ROWS4[1], ROWS4[3]]), require_all()),
 tab_variant('variadic-helper-accepts-any-set', 'flagged(metadata/non-empty-)', v_call(), require_all(test='f.value != ""', fail='return nil')),
 tab_variant('variadic-helper-skips-first', 'flagged(metadata/non-empty-)', v_call(), require_all(rng='fields[1:]')),
 tab_variant('variadic-bool-helper-negated', 'flagged(metadata/non-empty-)', B_ALL_SET.replace('!allSet', 'allSet'), ALL_SET),
 tab_variant('variadic-bool-helper-value-missing', 'flagged(metadata/non-empty-description)', B_ALL_SET.replace('metadata.Description, ', ''), ALL_SET),
]
LOOP_RANGE_IDX = '\tfor i := range mandatory {\n\t\tif mandatory[i].value == "" {\n\t\t\treturn errors.New("empty " + mandatory[i].field)\n\t\t}\n\t}\n'
LOOP_ERR_LOCAL = '\tvar missing error\n\tfor _, m := range mandatory {\n\t\tif m.value == "" {\n\t\t\tmissing = errors.New("empty " + m.field)\n\t\t\tbreak\n\t\t}\n\t}\n\tif missing != nil {\n\t\treturn missing\n\t}\n'
VARIANTS += [
 tab_variant('benign-mandatory-table-range-by-index', 'silent', table(loop=LOOP_RANGE_IDX), why='range over the indices, the rows read in place'),
 tab_variant('benign-mandatory-table-rendered', 'silent', table(between='\t_ = fmt.Sprintf("%v", metadata)\n'), why='the object is rendered by a formatting call after the table was built'),
 tab_variant('benign-mandatory-table-error-local', 'silent', table(loop=LOOP_ERR_LOCAL), why='the loop records the first failure in an error local and breaks; the local is returned after the loop'),
 tab_variant('table-error-local-not-returned', 'flagged(metadata/non-empty-)', table(loop=LOOP_ERR_LOCAL.replace('\tif missing != nil {\n\t\treturn missing\n\t}\n', '\tif missing != nil && len(metadata.Capabilities) == 0 {\n\t\treturn missing\n\t}\n'))),
 tab_variant('table-object-rewritten-by-call', 'flagged(metadata/non-empty-)', table(between='\t_ = json.Unmarshal([]byte(metadata.Description), metadata)\n')),
]

# ---- round 4: the captured stderr must reach the error mapping on every failing exit of the process runner
# ---- (seed C17-6: a three-way switch whose deadline arm returns nil for stderr, hidden in the extraction of executionError)
SEED_HELPER = ('// executionError returns the error to report for a plugin command that failed\n// with err: the error the plugin printed to stderr if there is one, and\n'
               '// otherwise an error telling whether the executable file or the plugin\n// implementation is to blame.\n'
               'func executionError(logger log.Logger, pluginName string, command plugin.Command, stderr []byte, err error) error {\n'
               '\tif len(stderr) == 0 {\n\t\t// if stderr is empty, it is possible that the plugin is not\n\t\t// running properly.\n'
               '\t\tlogger.Errorf("failed to execute the %s command for plugin %s: %s", command, pluginName, err)\n\t\treturn &PluginExecutableFileError{\n\t\t\tInnerError: err,\n\t\t}\n\t}\n\n'
               '\tvar re proto.RequestError\n\tif jsonErr := json.Unmarshal(stderr, &re); jsonErr != nil {\n'
               '\t\tlogger.Errorf("failed to execute the %s command for plugin %s: %s", command, pluginName, strings.TrimSuffix(string(stderr), "\\n"))\n'
               '\t\treturn &PluginMalformedError{\n\t\t\tInnerError: jsonErr,\n\t\t}\n\t}\n'
               '\tlogger.Errorf("failed to execute the %s command for plugin %s: %s: %w", command, pluginName, re.Code, re)\n\treturn re\n}\n\n')
SEED_STREAMS_OLD = ('\t// The limit writer will be handled by the caller in run() by comparing the\n\t// bytes written with the expected length of the bytes.\n'
                    '\tcmd.Stderr = io.LimitWriter(&stderr, maxPluginOutputSize)\n\tcmd.Stdout = io.LimitWriter(&stdout, maxPluginOutputSize)\n')
SEED_STREAMS_NEW = ('\t// a write beyond the limit fails, which makes cmd.Run() fail in turn\n'
                    '\tcmd.Stdout = io.LimitWriter(&stdout, maxPluginOutputSize)\n\tcmd.Stderr = io.LimitWriter(&stderr, maxPluginOutputSize)\n')
T_ERRORF = 'fmt.Errorf("\'%s %s\' command execution timeout: %w", name, string(command), err)'
def r_switch(deadline='stderr.Bytes()', default='stderr.Bytes()'):
    return ('\n\tswitch err := cmd.Run(); {\n\tcase err == nil:\n\t\treturn stdout.Bytes(), nil, nil\n\tcase errors.Is(ctx.Err(), context.DeadlineExceeded):\n'
            '\t\treturn nil, ' + deadline + ', ' + T_ERRORF + '\n\tdefault:\n\t\treturn nil, ' + default + ', err\n\t}\n')
def seed_variant(name, expect, why=None, **kw):
    d = dict(name=name, file=P, expect=expect, find=RUN_OLD, replace=r_switch(**kw),
             edits=[(P, MAP_OLD, '\t\treturn executionError(logger, pluginName, req.Command(), stderr, err)\n'), (P, MAP_HOOK, SEED_HELPER + MAP_HOOK), (P, SEED_STREAMS_OLD, SEED_STREAMS_NEW)])
    if why: d['why'] = why
    return d
def run_variant(name, expect, body, why=None, edits=None):
    d = dict(name=name, file=P, expect=expect, find=RUN_OLD, replace=body)
    if edits: d['edits'] = edits
    if why: d['why'] = why
    return d
def r_nest(timeout='stderr.Bytes()', other='stderr.Bytes()', pre='\terr := cmd.Run()\n', inner=''):
    return (pre + '\tif err != nil {\n' + inner + '\t\tif errors.Is(ctx.Err(), context.DeadlineExceeded) {\n\t\t\treturn nil, ' + timeout + ', ' + T_ERRORF + '\n\t\t}\n'
            '\t\treturn nil, ' + other + ', err\n\t}\n\treturn stdout.Bytes(), nil, nil\n')
R_MERGED = ('\terr := cmd.Run()\n\tif err == nil {\n\t\treturn stdout.Bytes(), nil, nil\n\t}\n\tif errors.Is(ctx.Err(), context.DeadlineExceeded) {\n\t\terr = ' + T_ERRORF + '\n\t}\n\treturn nil, stderr.Bytes(), err\n')
def single_exit2(deadline=''):
    # named results; errOut is assigned in the arms of the failing branch
    return ('\terr = cmd.Run()\n\tif err == nil {\n\t\tout = stdout.Bytes()\n\t} else if errors.Is(ctx.Err(), context.DeadlineExceeded) {\n' + deadline +
            '\t\terr = ' + T_ERRORF + '\n\t} else {\n\t\terrOut = stderr.Bytes()\n\t}\n\treturn out, errOut, err\n')
CAPTURED_H = 'func captured(b *bytes.Buffer) []byte {\n\treturn b.Bytes()\n}\n\n'
VARIANTS += [
 # the slip, in the seed's shape and in others
 seed_variant('seed6-switch-deadline-arm-drops-stderr', 'flagged(runner/stderr-on-failure)', deadline='nil'),
 seed_variant('seed6-switch-default-arm-drops-stderr', 'flagged(runner/stderr-on-failure)', default='nil'),
 run_variant('timeout-exit-drops-stderr', 'flagged(runner/stderr-on-failure)', r_nest(timeout='nil')),
 run_variant('plain-failure-exit-drops-stderr', 'flagged(runner/stderr-on-failure)', r_nest(other='nil')),
 run_variant('failing-exit-returns-stdout-as-stderr', 'flagged(runner/stderr-on-failure)', r_nest(timeout='stdout.Bytes()')),
 run_variant('stderr-bytes-taken-before-run', 'flagged(runner/stderr-on-failure)', r_nest(timeout='errBytes', other='errBytes', pre='\terrBytes := stderr.Bytes()\n\terr := cmd.Run()\n')),
 run_variant('single-exit-deadline-arm-leaves-stderr-unset', 'flagged(runner/stderr-on-failure)', single_exit2(), edits=[(P, OUTF_OLD, OUTF_NAMED)]),
 run_variant('stderr-local-only-when-not-timeout', 'flagged(runner/stderr-on-failure)',
             '\terr := cmd.Run()\n\tif err == nil {\n\t\treturn stdout.Bytes(), nil, nil\n\t}\n\tvar errBytes []byte\n\tif errors.Is(ctx.Err(), context.DeadlineExceeded) {\n\t\terr = ' + T_ERRORF + '\n\t} else {\n\t\terrBytes = stderr.Bytes()\n\t}\n\treturn nil, errBytes, err\n'),
 run_variant('stderr-helper-returns-nil-when-large', 'flagged(runner/stderr-on-failure)', r_nest(timeout='captured(&stderr)', other='captured(&stderr)'),
             edits=[(P, VAL_HOOK, 'func captured(b *bytes.Buffer) []byte {\n\tif b.Len() > 4096 {\n\t\treturn nil\n\t}\n\treturn b.Bytes()\n}\n\n' + VAL_HOOK)]),
 run_variant('stderr-buffer-reset-on-timeout', 'flagged(runner/stderr-on-failure/buffer-intact)', r_nest(inner='\t\tif ctx.Err() != nil {\n\t\t\tstderr.Reset()\n\t\t}\n')),
 run_variant('timeout-helper-exit-drops-stderr', 'flagged(runner/stderr-on-failure)', R_TIMEOUT.replace('return nil, stderr.Bytes(), timeoutError', 'return nil, nil, timeoutError'), edits=[(P, VAL_HOOK, timeout_helper() + VAL_HOOK)]),
 run_variant('start-then-wait-timeout-exit-drops-stderr', 'flagged(runner/stderr-on-failure)', start_wait().replace('\t\t\treturn nil, stderr.Bytes(), fmt.Errorf', '\t\t\treturn nil, nil, fmt.Errorf')),
 # the same refactorings with the property kept
 seed_variant('benign-seed6-twin-switch-both-arms-return-stderr', 'silent', why='the seed\'s patch (executionError extracted, three-way switch) with stderr.Bytes() in both failing arms'),
 run_variant('benign-switch-in-base-tree', 'silent', r_switch(), why='only the three-way switch'),
 run_variant('benign-stderr-local-shared-by-failing-arms', 'silent', r_nest(timeout='errBytes', other='errBytes', inner='\t\terrBytes := stderr.Bytes()\n'), why='one local taken after Run, returned by both failing arms'),
 run_variant('benign-stderr-local-before-error-test', 'silent', r_nest(timeout='errBytes', other='errBytes', pre='\terr := cmd.Run()\n\terrBytes := stderr.Bytes()\n'), why='the bytes taken right after Run, before the error test'),
 run_variant('benign-failing-returns-merged', 'silent', R_MERGED, why='success first; the error is wrapped on timeout and the two failing returns are one'),
 run_variant('benign-single-exit-stderr-in-every-failing-arm', 'silent', single_exit2(deadline='\t\terrOut = stderr.Bytes()\n'), edits=[(P, OUTF_OLD, OUTF_NAMED)], why='named results, each failing arm assigns the captured stderr'),
 run_variant('benign-stderr-through-helper', 'silent', r_nest(timeout='captured(&stderr)', other='captured(&stderr)'), edits=[(P, VAL_HOOK, CAPTURED_H + VAL_HOOK)], why='the bytes are taken by an unexported helper'),
 run_variant('benign-stderr-cloned', 'silent', r_nest(timeout='bytes.Clone(stderr.Bytes())', other='bytes.Clone(stderr.Bytes())'), why='a copy of the captured bytes'),
 run_variant('benign-stderr-also-on-success', 'silent', r_nest().replace('return stdout.Bytes(), nil, nil', 'return stdout.Bytes(), stderr.Bytes(), nil'), why='the success exit may hand on stderr too: the runner does not read it'),
 run_variant('benign-stderr-buffer-preallocated', 'silent', r_nest(pre='\tstderr.Grow(512)\n\tstderr.Reset()\n\terr := cmd.Run()\n'), why='the buffer is touched before Run only'),
 run_variant('benign-start-then-wait-stderr-local', 'silent', start_wait(wait='\terr := cmd.Wait()\n\terrBytes := stderr.Bytes()\n').replace('\t\t\treturn nil, stderr.Bytes(), fmt.Errorf', '\t\t\treturn nil, errBytes, fmt.Errorf').replace('\t\treturn nil, stderr.Bytes(), err\n\t}\n\treturn stdout', '\t\treturn nil, errBytes, err\n\t}\n\treturn stdout'), why='Start + Wait; the bytes taken after Wait'),
]

# ---- the runner waits for nothing but the process (checker/blocking.go; seed C17-7) ----
_NB = 'flagged(runner/no-unbounded-blocking)'
_STDIN = '\tcmd.Stdin = bytes.NewReader(req)\n'
_RUNLINE = '\terr := cmd.Run()\n'
VARIANTS += [
 dict(name='blocking-own-pipe-written-before-run', file=P, expect=_NB, find=_STDIN,
      replace='\tpr, pw, perr := os.Pipe()\n\tif perr != nil {\n\t\treturn nil, nil, perr\n\t}\n\tdefer pr.Close()\n\tcmd.Stdin = pr\n\tif _, werr := pw.Write(req); werr != nil {\n\t\treturn nil, nil, werr\n\t}\n\tpw.Close()\n',
      why='the request is written into a pipe the runner made itself: a large request blocks before the process exists'),
 dict(name='blocking-waits-for-own-goroutine', file=P, expect=_NB, find=_RUNLINE,
      replace='\tdone := make(chan error, 1)\n\tgo func() { done <- cmd.Run() }()\n\terr := <-done\n',
      why='Run in a goroutine, the runner waits on a bare channel receive'),
 dict(name='blocking-sleep-before-run', file=P, expect=_NB, find=_RUNLINE, replace='\ttime.Sleep(pluginWaitDelay)\n\terr := cmd.Run()\n', why='a sleep the context does not cut'),
 dict(name='benign-run-in-helper', file=P, expect='silent', find=_RUNLINE, replace='\terr := runCommand(cmd)\n',
      edits=[(P, VAL_HOOK, 'func runCommand(cmd *exec.Cmd) error {\n\treturn cmd.Run()\n}\n\n' + VAL_HOOK)], why='Run behind a one-line helper'),
 dict(name='benign-run-select-on-context', file=P, expect='silent', find=_RUNLINE,
      replace='\tdone := make(chan error, 1)\n\tgo func() { done <- cmd.Run() }()\n\tvar err error\n\tselect {\n\tcase err = <-done:\n\tcase <-ctx.Done():\n\t\terr = <-done\n\t}\n', why=None) if False else None,
]
VARIANTS = [v for v in VARIANTS if v]
VARIANTS += [
 dict(name='run-helper-swallows-exit-status', file=P, expect='flagged', find=_RUNLINE, replace='\terr := runCommand(cmd)\n',
      edits=[(P, VAL_HOOK, 'func runCommand(cmd *exec.Cmd) error {\n\tif err := cmd.Run(); err != nil {\n\t\tif _, isExit := err.(*exec.ExitError); !isExit {\n\t\t\treturn err\n\t\t}\n\t}\n\treturn nil\n}\n\n' + VAL_HOOK)],
      why='the helper reports success although the process failed: stdout of a failed process is returned as the reply'),
]
