P = 'plugin/plugin.go'
L = 'internal/io/limitedwriter.go'
VARIANTS = [
 dict(name='F7-reintroduced', file=P, expect='flagged(command/wait-delay)',
      find='\t// do not wait forever for the output pipes held by plugin\'s descendants\n\tcmd.WaitDelay = pluginWaitDelay\n', replace=''),
 dict(name='wait-delay-zero', file=P, expect='flagged(command/wait-delay)',
      find='const pluginWaitDelay = 5 * time.Second', replace='const pluginWaitDelay = 0 * time.Second'),
 dict(name='wait-delay-conditional', file=P, expect='flagged(command/wait-delay)',
      find='\tcmd.WaitDelay = pluginWaitDelay\n', replace='\tif _, ok := ctx.Deadline(); ok {\n\t\tcmd.WaitDelay = pluginWaitDelay\n\t}\n'),
 dict(name='stderr-uncapped', file=P, expect='flagged(command/stderr-capped)',
      find='\tcmd.Stderr = io.LimitWriter(&stderr, maxPluginOutputSize)\n', replace='\tcmd.Stderr = &stderr\n'),
 dict(name='stdout-cap-huge-var', file=P, expect='flagged(command/stdout-capped)',
      find='\tcmd.Stdout = io.LimitWriter(&stdout, maxPluginOutputSize)\n', replace='\tcmd.Stdout = io.LimitWriter(&stdout, int64(len(req))*1024*1024)\n'),
 dict(name='no-context', file=P, expect='flagged(who-may-call/exec)',
      find='cmd := exec.CommandContext(ctx, name, string(command))', replace='cmd := exec.Command(name, string(command))'),
 dict(name='limit-not-decremented', file=L, expect='flagged(limited-writer/decrement)',
      find='\tl.N -= int64(n)\n', replace=''),
 dict(name='limit-not-cut', file=L, expect='flagged(limited-writer/cut-to-remaining)',
      find='\tif int64(len(p)) > l.N {\n\t\tp = p[:l.N]\n\t}\n', replace=''),
 dict(name='limit-zero-allowed', file=L, expect='flagged(limited-writer/positive-remaining)',
      find='\tif l.N <= 0 {\n\t\treturn 0, ErrLimitExceeded\n\t}\n', replace='\tif l.N < 0 {\n\t\treturn 0, ErrLimitExceeded\n\t}\n'),
 dict(name='decoder-accepts-trailing', file=P, expect='flagged(runner/reply-decodes)',
      find='\tif err = json.Unmarshal(stdout, resp); err != nil {', replace='\tif err = json.NewDecoder(bytes.NewReader(stdout)).Decode(resp); err != nil {'),
 dict(name='process-error-ignored-when-stdout', file=P, expect='flagged(runner/process-error)',
      find='\tif err != nil {\n\t\tlogger.Errorf("plugin %s execution status: %v", req.Command(), err)\n', replace='\tif err != nil && len(stdout) == 0 {\n\t\tlogger.Errorf("plugin %s execution status: %v", req.Command(), err)\n'),
 dict(name='stderr-error-swallowed', file=P, expect='flagged(runner/error-mapping/plugin-error)',
      find='\t\t\tlogger.Errorf("failed to execute the %s command for plugin %s: %s: %w", req.Command(), pluginName, re.Code, re)\n\t\t\treturn re', replace='\t\t\tlogger.Errorf("failed to execute the %s command for plugin %s: %s: %w", req.Command(), pluginName, re.Code, re)\n\t\t\treturn &PluginMalformedError{InnerError: re}'),
 dict(name='metadata-name-unchecked', file=P, expect='flagged(metadata/name-matches)',
      find='\tif metadata.Name != p.name {\n\t\treturn nil, fmt.Errorf("plugin executable file name must be %q instead of %q", binName(metadata.Name), filepath.Base(p.path))\n\t}\n', replace='\t_ = filepath.Base\n'),
 dict(name='metadata-url-optional', file=P, expect='flagged(metadata/non-empty-url)',
      find='\tif metadata.URL == "" {\n\t\treturn errors.New("empty url")\n\t}\n', replace=''),
 dict(name='metadata-contract-version-any', file=P, expect='flagged(metadata/contract-version)',
      find='\tif !slices.Contains(metadata.SupportedContractVersions, plugin.ContractVersion) {', replace='\tif !slices.Contains(metadata.SupportedContractVersions, plugin.ContractVersion) && len(metadata.SupportedContractVersions) > 3 {'),
 dict(name='metadata-validation-skipped', file=P, expect='flagged(metadata/)',
      find='\tif err = validate(&metadata); err != nil {', replace='\tif err = validate(&metadata); err != nil && req.PluginConfig != nil {'),
 dict(name='second-exec-site', file=P, expect='flagged(who-may-call/exec)',
      find='\t// validate file existence\n', replace='\tif out, err := exec.Command(path, "version").Output(); err == nil {\n\t\tlog.GetLogger(ctx).Debug(string(out))\n\t}\n\t// validate file existence\n'),
 # benign
 dict(name='benign-cap-constant-renamed', file=P, expect='silent', all=True,
      find='maxPluginOutputSize', replace='pluginOutputLimit'),
 dict(name='benign-log-text', file=P, expect='silent',
      find='logger.Debugf("Plugin %s response: %s", req.Command(), string(stdout))', replace='logger.Debugf("Plugin %s answered %d bytes", req.Command(), len(stdout))'),
 dict(name='benign-written-counter-form', file=L, expect='silent',
      edits=[(L, '\tN int64     // remaining bytes\n', '\tN int64     // max bytes to write\n\n\twritten int64\n'),
             (L, '\tif l.N <= 0 {', '\tif l.written >= l.N {'),
             (L, '\tif int64(len(p)) > l.N {\n\t\tp = p[:l.N]\n\t}', '\tif int64(len(p)) > l.N-l.written {\n\t\tp = p[:l.N-l.written]\n\t}'),
             (L, '\tl.N -= int64(n)\n', '\tl.written += int64(n)\n')],
      why='the same bound kept as limit + written counter'),
 dict(name='written-counter-cut-against-total', file=L, expect='flagged(limited-writer/cut-to-remaining)',
      edits=[(L, '\tN int64     // remaining bytes\n', '\tN int64     // max bytes to write\n\n\twritten int64\n'),
             (L, '\tif l.N <= 0 {', '\tif l.written >= l.N {'),
             (L, '\tl.N -= int64(n)\n', '\tl.written += int64(n)\n')]),
]

# the error mapping moved into an unexported helper the failing branch returns through
MAP_OLD = '\n\t\tif len(stderr) == 0 {\n\t\t\t// if stderr is empty, it is possible that the plugin is not\n\t\t\t// running properly.\n\t\t\tlogger.Errorf("failed to execute the %s command for plugin %s: %s", req.Command(), pluginName, err)\n\t\t\treturn &PluginExecutableFileError{\n\t\t\t\tInnerError: err,\n\t\t\t}\n\t\t} else {\n\t\t\tvar re proto.RequestError\n\t\t\tjsonErr := json.Unmarshal(stderr, &re)\n\t\t\tif jsonErr != nil {\n\t\t\t\tlogger.Errorf("failed to execute the %s command for plugin %s: %s", req.Command(), pluginName, strings.TrimSuffix(string(stderr), "\\n"))\n\t\t\t\treturn &PluginMalformedError{\n\t\t\t\t\tInnerError: jsonErr,\n\t\t\t\t}\n\t\t\t}\n\t\t\tlogger.Errorf("failed to execute the %s command for plugin %s: %s: %w", req.Command(), pluginName, re.Code, re)\n\t\t\treturn re\n\t\t}\n'
MAP_CALL = '\t\treturn executionError(logger, pluginName, req.Command(), stderr, err)\n'
def map_helper(cond='len(stderr) == 0', ret='re'):
    return ('func executionError(logger log.Logger, pluginName string, command plugin.Command, stderr []byte, execErr error) error {\n'
            '\tif ' + cond + ' {\n\t\tlogger.Errorf("failed to execute the %s command for plugin %s: %s", command, pluginName, execErr)\n\t\treturn &PluginExecutableFileError{InnerError: execErr}\n\t}\n'
            '\tvar re proto.RequestError\n\tif jsonErr := json.Unmarshal(stderr, &re); jsonErr != nil {\n\t\tlogger.Errorf("failed to execute the %s command for plugin %s: %s", command, pluginName, strings.TrimSuffix(string(stderr), "\\n"))\n\t\treturn &PluginMalformedError{InnerError: jsonErr}\n\t}\n'
            '\treturn ' + ret + '\n}\n\n// commander is defined for mocking purposes.')
MAP_HOOK = '// commander is defined for mocking purposes.'
VARIANTS += [
 dict(name='benign-error-mapping-helper', file=P, expect='silent', find=MAP_OLD, replace=MAP_CALL, edits=[(P, MAP_HOOK, map_helper())]),
 dict(name='error-mapping-helper-inverted-stderr-test', file=P, expect='flagged(runner/error-mapping/executable)', find=MAP_OLD, replace=MAP_CALL, edits=[(P, MAP_HOOK, map_helper(cond='len(stderr) != 0'))]),
 dict(name='error-mapping-helper-drops-plugin-error', file=P, expect='flagged(runner/error-mapping/plugin-error)', find=MAP_OLD, replace=MAP_CALL, edits=[(P, MAP_HOOK, map_helper(ret='&PluginMalformedError{InnerError: execErr}'))]),
]
