P = 'signer/plugin.go'
S = 'signer/signer.go'
VARIANTS = [
 dict(name='envelope-type-echo-dropped', file=P, expect='flagged(envelope/format-echo)',
      find='\tif resp.SignatureEnvelopeType != req.SignatureEnvelopeType {', replace='\tif resp.SignatureEnvelopeType == "" {'),
 dict(name='envelope-verify-error-ignored', file=P, expect='flagged(envelope/self-verify)',
      find='\tenvContent, err := sigEnv.Verify()\n\tif err != nil {\n\t\treturn nil, nil, fmt.Errorf("generated signature failed verification: %w", err)\n\t}\n',
      replace='\tenvContent, err := sigEnv.Verify()\n\tif err != nil && envContent == nil {\n\t\treturn nil, nil, fmt.Errorf("generated signature failed verification: %w", err)\n\t}\n'),
 dict(name='descriptor-check-dropped', file=P, expect='flagged(envelope/descriptor-equal)',
      find='\tif !isPayloadDescriptorValid(desc, signedPayload.TargetArtifact) {', replace='\tif signedPayload.TargetArtifact.Digest == "" {'),
 dict(name='descriptor-args-swapped', file=P, expect='flagged(envelope/annotations)',
      find='\tif !isPayloadDescriptorValid(desc, signedPayload.TargetArtifact) {', replace='\tif !isPayloadDescriptorValid(signedPayload.TargetArtifact, desc) {'),
 dict(name='annotation-value-not-compared', file=P, expect='flagged(envelope/annotations-preserved)',
      find='\t\tif v2, ok := newDesc.Annotations[k]; !ok || v != v2 {', replace='\t\tif _, ok := newDesc.Annotations[k]; !ok {\n\t\t\t_ = v'),
 dict(name='annotation-missing-tolerated', file=P, expect='flagged(envelope/annotations-preserved)',
      find='\t\tif v2, ok := newDesc.Annotations[k]; !ok || v != v2 {', replace='\t\tif v2, ok := newDesc.Annotations[k]; ok && v != v2 {'),
 dict(name='annotation-loop-early-true', file=P, expect='flagged(envelope/annotations-preserved)',
      find='\t\tif v2, ok := newDesc.Annotations[k]; !ok || v != v2 {\n\t\t\treturn false\n\t\t}\n', replace='\t\tif v2, ok := newDesc.Annotations[k]; !ok || v != v2 {\n\t\t\treturn false\n\t\t}\n\t\treturn true\n'),
 dict(name='unknown-fields-tolerated', file=P, expect='flagged(envelope/unknown-fields)',
      find='len(unknownAttributes) != 0 {', replace='len(unknownAttributes) > 3 {'),
 dict(name='unknown-scan-of-request-bytes', file=P, expect='flagged(envelope/unknown-fields)',
      find='areUnknownAttributesAdded(content); len', replace='areUnknownAttributesAdded(payloadBytes); len'),
 dict(name='scan-ignores-extra-key', file=P, expect='flagged(scan/removes-only-descriptor-fields)',
      find='\tdelete(descriptor, "artifactType")\n', replace='\tdelete(descriptor, "artifactType")\n\tdelete(descriptor, "subject")\n'),
 dict(name='scan-outer-level-dropped', file=P, expect='flagged(scan/reports-both-levels)',
      find='\tunknownAttributes := append(getKeySet(descriptor), getKeySet(targetArtifactMap)...)', replace='\tunknownAttributes := getKeySet(descriptor)'),
 dict(name='keyset-filters-keys', file=P, expect='flagged(scan/keyset-complete)',
      find='\tfor k := range inputMap {\n\t\tkeySet = append(keySet, k)\n', replace='\tfor k := range inputMap {\n\t\tif len(k) > 0 && k[0] == \'_\' {\n\t\t\tcontinue\n\t\t}\n\t\tkeySet = append(keySet, k)\n'),
 dict(name='returns-unverified-bytes', file=P, expect='flagged(envelope/returns-verified-bytes)',
      find='\treturn resp.SignatureEnvelope, &envContent.SignerInfo, nil', replace='\tout, _ := sigEnv.Content()\n\t_ = out\n\treturn append([]byte(nil), req.Payload...), &envContent.SignerInfo, nil'),
 dict(name='annotations-stored-early', file=P, expect='flagged(envelope/state-after-checks)',
      edits=[(P, '\ts.manifestAnnotations = resp.Annotations\n', ''),
             (P, '\t// Check signatureEnvelopeType is honored.\n', '\ts.manifestAnnotations = resp.Annotations\n\t// Check signatureEnvelopeType is honored.\n')]),
 dict(name='describe-key-id-unchecked', file=P, expect='flagged(raw/describe-key/key-id-echo)',
      find='\tif s.keyID != descKeyResp.KeyID {', replace='\tif descKeyResp.KeyID == "" {'),
 dict(name='describe-key-id-prefix', file=P, expect='flagged(raw/describe-key/key-id-echo)',
      find='\tif s.keyID != descKeyResp.KeyID {', replace='\tif !strings.HasPrefix(descKeyResp.KeyID, s.keyID) {',
      edits=[(P, '\t"fmt"\n', '\t"fmt"\n\t"strings"\n')]),
 dict(name='generate-signature-key-id-unchecked', file=P, expect='flagged(raw/generate-signature/key-id-echo)',
      find='\tif req.KeyID != resp.KeyID {', replace='\tif resp.KeyID == "" {'),
 dict(name='cert-parse-error-skipped', file=P, expect='flagged(raw/cert-chain-parser)',
      find='\t\tcert, err := x509.ParseCertificate(cert)\n\t\tif err != nil {\n\t\t\treturn nil, err\n\t\t}\n', replace='\t\tcert, err := x509.ParseCertificate(cert)\n\t\tif err != nil {\n\t\t\tcontinue\n\t\t}\n'),
 dict(name='cert-chain-error-ignored', file=P, expect='flagged(raw/generate-signature/cert-chain-parses)',
      find='\tif certs, err = parseCertChain(resp.CertificateChain); err != nil {\n\t\treturn nil, nil, err\n\t}\n', replace='\tcerts, _ = parseCertChain(resp.CertificateChain)\n'),
 dict(name='request-hash-fixed', file=P, expect='flagged(raw/generate-signature/request)',
      find='\t\tHash:            keySpecHash,\n', replace='\t\tHash:            min(keySpecHash, plugin.HashAlgorithmSHA256),\n'),
 dict(name='primitive-signer-keyspec-of-options', file=P, expect='flagged(raw/primitive-signer)',
      find='\t\t\tkeySpec:      ks,\n', replace='\t\t\tkeySpec:      signature.KeySpec{Type: signature.KeyTypeRSA, Size: 2048},\n'),
 dict(name='keyspec-error-ignored', file=P, expect='flagged(raw/primitive-signer/key-spec-origin)',
      find='\tks, err := s.getKeySpec(ctx, mergedConfig)\n\tif err != nil {\n\t\treturn nil, nil, err\n\t}\n\n\t// get descriptor to sign', replace='\tks, _ := s.getKeySpec(ctx, mergedConfig)\n\n\t// get descriptor to sign'),
 dict(name='generic-self-verify-dropped', file=S, expect='flagged(raw/generic-signer/self-verify)',
      find='\tenvContent, err := sigEnv.Verify()\n\tif err != nil {\n\t\treturn nil, nil, fmt.Errorf("generated signature failed verification: %v", err)\n\t}\n', replace='\tenvContent, err := sigEnv.Content()\n\tif err != nil {\n\t\treturn nil, nil, fmt.Errorf("generated signature failed verification: %v", err)\n\t}\n'),
 dict(name='generic-payload-type-unchecked', file=S, expect='flagged(raw/generic-signer/payload-type)',
      find='\tif err := envelope.ValidatePayloadContentType(&envContent.Payload); err != nil {\n\t\treturn nil, nil, err\n\t}\n\treturn sig,', replace='\treturn sig,'),
 dict(name='dispatch-envelope-without-capability', file=P, expect='flagged(dispatch/Sign)',
      find='\t} else if metadata.HasCapability(plugin.CapabilityEnvelopeGenerator) {\n\t\tsig, signerInfo, err := s.generateSignatureEnvelope(ctx, desc, opts)', replace='\t} else {\n\t\tsig, signerInfo, err := s.generateSignatureEnvelope(ctx, desc, opts)'),
 # benign
 dict(name='benign-envelope-parsed-with-response-type', file=P, expect='silent',
      find='signature.ParseEnvelope(opts.SignatureMediaType, resp.SignatureEnvelope)', replace='signature.ParseEnvelope(resp.SignatureEnvelopeType, resp.SignatureEnvelope)',
      why='the echo check equates the response type with the requested one'),
 dict(name='benign-error-text', file=P, expect='silent',
      find='"plugin failed to sign with following error: %w"', replace='"plugin signing failed: %w"'),
 dict(name='benign-subset-helper-inlined-equal', file=P, expect='silent',
      find='\treturn content.Equal(originalDesc, newDesc) &&\n\t\tisDescriptorSubset(originalDesc, newDesc)', replace='\treturn isDescriptorSubset(originalDesc, newDesc)',
      why='isDescriptorSubset itself starts with content.Equal'),
 dict(name='benign-echo-compares-option', file=P, expect='silent',
      find='\tif resp.SignatureEnvelopeType != req.SignatureEnvelopeType {', replace='\tif resp.SignatureEnvelopeType != opts.SignatureMediaType {'),
]

# ===== shapes accepted since the rule set follows helpers, merged exits and library forms =====
ENV_TAIL = r'''	sigEnv, err := signature.ParseEnvelope(opts.SignatureMediaType, resp.SignatureEnvelope)
	if err != nil {
		return nil, nil, err
	}
	envContent, err := sigEnv.Verify()
	if err != nil {
		return nil, nil, fmt.Errorf("generated signature failed verification: %w", err)
	}
	if err := envelope.ValidatePayloadContentType(&envContent.Payload); err != nil {
		return nil, nil, err
	}
	content := envContent.Payload.Content
	var signedPayload envelope.Payload
	if err = json.Unmarshal(content, &signedPayload); err != nil {
		return nil, nil, fmt.Errorf("signed envelope payload can't be unmarshalled: %w", err)
	}
	if !isPayloadDescriptorValid(desc, signedPayload.TargetArtifact) {
		return nil, nil, fmt.Errorf("during signing descriptor subject has changed from %+v to %+v", desc, signedPayload.TargetArtifact)
	}
	if unknownAttributes := areUnknownAttributesAdded(content); len(unknownAttributes) != 0 {
		return nil, nil, fmt.Errorf("during signing, following unknown attributes were added to subject descriptor: %+q", unknownAttributes)
	}
	s.manifestAnnotations = resp.Annotations
	return resp.SignatureEnvelope, &envContent.SignerInfo, nil
}

'''

ENV_TAIL_HELPERS = r'''	signerInfo, err := verifyGeneratedEnvelope(opts.SignatureMediaType, resp.SignatureEnvelope, desc)
	if err != nil {
		return nil, nil, err
	}
	s.manifestAnnotations = resp.Annotations
	return resp.SignatureEnvelope, signerInfo, nil
}

// verifyGeneratedEnvelope parses the signature envelope produced by the plugin
// as an envelope of the given media type, verifies its integrity and checks
// that it has been generated for the requested descriptor desc. On success it
// returns the SignerInfo of the verified envelope.
func verifyGeneratedEnvelope(mediaType string, rawEnvelope []byte, desc ocispec.Descriptor) (*signature.SignerInfo, error) {
	sigEnv, err := signature.ParseEnvelope(mediaType, rawEnvelope)
	if err != nil {
		return nil, err
	}
	envContent, err := sigEnv.Verify()
	if err != nil {
		return nil, fmt.Errorf("generated signature failed verification: %w", err)
	}
	if err := envelope.ValidatePayloadContentType(&envContent.Payload); err != nil {
		return nil, err
	}
	if err := checkSignedPayload(desc, envContent.Payload.Content); err != nil {
		return nil, err
	}
	return &envContent.SignerInfo, nil
}

// checkSignedPayload checks that the signed payload targets the requested
// descriptor desc and that no unknown attributes have been added to it.
func checkSignedPayload(desc ocispec.Descriptor, payloadContent []byte) error {
	var signedPayload envelope.Payload
	if err := json.Unmarshal(payloadContent, &signedPayload); err != nil {
		return fmt.Errorf("signed envelope payload can't be unmarshalled: %w", err)
	}
	if !isPayloadDescriptorValid(desc, signedPayload.TargetArtifact) {
		return fmt.Errorf("during signing descriptor subject has changed from %+v to %+v", desc, signedPayload.TargetArtifact)
	}
	if unknownAttributes := areUnknownAttributesAdded(payloadContent); len(unknownAttributes) != 0 {
		return fmt.Errorf("during signing, following unknown attributes were added to subject descriptor: %+q", unknownAttributes)
	}
	return nil
}

'''

SIGN_TAIL = r'''	if metadata.HasCapability(plugin.CapabilitySignatureGenerator) {
		ks, err := s.getKeySpec(ctx, mergedConfig)
		if err != nil {
			return nil, nil, fmt.Errorf("failed to sign with the plugin %s: %w", metadata.Name, err)
		}
		sig, signerInfo, err := s.generateSignature(ctx, desc, opts, ks, metadata, mergedConfig)
		if err != nil {
			return nil, nil, fmt.Errorf("failed to sign with the plugin %s: %w", metadata.Name, err)
		}
		return sig, signerInfo, nil
	} else if metadata.HasCapability(plugin.CapabilityEnvelopeGenerator) {
		sig, signerInfo, err := s.generateSignatureEnvelope(ctx, desc, opts)
		if err != nil {
			return nil, nil, fmt.Errorf("failed to sign with the plugin %s: %w", metadata.Name, err)
		}
		return sig, signerInfo, nil
	}
	return nil, nil, fmt.Errorf("plugin does not have signing capabilities")
}

'''

SIGN_TAIL_MERGED = r'''	var (
		sig        []byte
		signerInfo *signature.SignerInfo
	)
	switch {
	case metadata.HasCapability(plugin.CapabilitySignatureGenerator):
		var ks signature.KeySpec
		if ks, err = s.getKeySpec(ctx, mergedConfig); err == nil {
			sig, signerInfo, err = s.generateSignature(ctx, desc, opts, ks, metadata, mergedConfig)
		}
	case metadata.HasCapability(plugin.CapabilityEnvelopeGenerator):
		sig, signerInfo, err = s.generateSignatureEnvelope(ctx, desc, opts)
	default:
		return nil, nil, fmt.Errorf("plugin does not have signing capabilities")
	}
	if err != nil {
		return nil, nil, fmt.Errorf("failed to sign with the plugin %s: %w", metadata.Name, err)
	}
	return sig, signerInfo, nil
}

'''

SCAN = r'''func areUnknownAttributesAdded(content []byte) []string {
	var targetArtifactMap map[string]interface{}

	// Ignoring error because we already successfully unmarshalled before this
	// point
	_ = json.Unmarshal(content, &targetArtifactMap)
	descriptor, _ := targetArtifactMap["targetArtifact"].(map[string]interface{})

	// Explicitly remove expected keys to check if any are left over
	delete(descriptor, "mediaType")
	delete(descriptor, "digest")
	delete(descriptor, "size")
	delete(descriptor, "urls")
	delete(descriptor, "annotations")
	delete(descriptor, "data")
	delete(descriptor, "platform")
	delete(descriptor, "artifactType")
	delete(targetArtifactMap, "targetArtifact")

	unknownAttributes := append(getKeySet(descriptor), getKeySet(targetArtifactMap)...)
	return unknownAttributes
}

'''

SCAN_LIB = r'''// knownDescriptorAttributes are the JSON keys of [ocispec.Descriptor].
var knownDescriptorAttributes = []string{
	"mediaType",
	"digest",
	"size",
	"urls",
	"annotations",
	"data",
	"platform",
	"artifactType",
}

func areUnknownAttributesAdded(content []byte) []string {
	var targetArtifactMap map[string]any

	// Ignoring error because we already successfully unmarshalled before this
	// point
	_ = json.Unmarshal(content, &targetArtifactMap)
	descriptor, _ := targetArtifactMap["targetArtifact"].(map[string]any)

	// Explicitly remove expected keys to check if any are left over
	maps.DeleteFunc(descriptor, func(k string, _ any) bool {
		return slices.Contains(knownDescriptorAttributes, k)
	})
	delete(targetArtifactMap, "targetArtifact")

	unknownAttributes := make([]string, 0, len(descriptor)+len(targetArtifactMap))
	unknownAttributes = slices.AppendSeq(unknownAttributes, maps.Keys(descriptor))
	unknownAttributes = slices.AppendSeq(unknownAttributes, maps.Keys(targetArtifactMap))
	return unknownAttributes
}

'''

def _sub(text, find, replace):
    assert text.count(find) == 1, find
    return text.replace(find, replace)

IMPORTS_LIB = (P, '\t"fmt"\n\t"time"\n', '\t"fmt"\n\t"maps"\n\t"slices"\n\t"time"\n')
MARSHAL_FIND = '\tpayload := envelope.Payload{TargetArtifact: envelope.SanitizeTargetArtifact(desc)}\n\tpayloadBytes, err := json.Marshal(payload)\n\tif err != nil {\n\t\treturn nil, nil, fmt.Errorf("envelope payload can\'t be marshalled: %w", err)\n\t}\n\n\t// Execute plugin sign command.\n'
MARSHAL_CALL = '\tpayloadBytes, err := marshalPayload(desc)\n\tif err != nil {\n\t\treturn nil, nil, err\n\t}\n\n\t// Execute plugin sign command.\n'
MARSHAL_HELPER = 'func marshalPayload(target ocispec.Descriptor) ([]byte, error) {\n\ttoSign := envelope.Payload{TargetArtifact: envelope.SanitizeTargetArtifact(target)}\n\tencoded, err := json.Marshal(toSign)\n\tif err != nil {\n\t\treturn nil, fmt.Errorf("envelope payload can\'t be marshalled: %w", err)\n\t}\n\treturn encoded, nil\n}\n\n'
MERGE_FN = 'func (s *PluginSigner) mergeConfig('

VARIANTS += [
 # ---- shape: the envelope checks live in helper functions (two levels) below the function that calls the plugin
 dict(name='benign-envelope-checks-in-helpers', file=P, expect='silent', find=ENV_TAIL, replace=ENV_TAIL_HELPERS,
      why='same checks in the same order on the same values, written in helpers with one call site each'),
 dict(name='helpers-verify-error-ignored', file=P, expect='flagged(envelope/self-verify)', find=ENV_TAIL,
      replace=_sub(ENV_TAIL_HELPERS, '\tenvContent, err := sigEnv.Verify()\n\tif err != nil {', '\tenvContent, err := sigEnv.Verify()\n\tif err != nil && envContent == nil {')),
 dict(name='helpers-other-bytes-verified', file=P, expect='flagged(envelope/parse)', find=ENV_TAIL,
      replace=_sub(ENV_TAIL_HELPERS, 'verifyGeneratedEnvelope(opts.SignatureMediaType, resp.SignatureEnvelope, desc)', 'verifyGeneratedEnvelope(opts.SignatureMediaType, payloadBytes, desc)')),
 dict(name='helpers-annotations-not-handed-down', file=P, expect='flagged(envelope/descriptor-equal)', find=ENV_TAIL,
      replace=_sub(ENV_TAIL_HELPERS, 'checkSignedPayload(desc, envContent.Payload.Content)', 'checkSignedPayload(ocispec.Descriptor{MediaType: desc.MediaType, Digest: desc.Digest, Size: desc.Size}, envContent.Payload.Content)')),
 dict(name='helpers-scan-only-for-small-payloads', file=P, expect='flagged(envelope/unknown-fields)', find=ENV_TAIL,
      replace=_sub(ENV_TAIL_HELPERS, '\tif unknownAttributes := areUnknownAttributesAdded(payloadContent); len(unknownAttributes) != 0 {', '\tif unknownAttributes := areUnknownAttributesAdded(payloadContent); len(unknownAttributes) != 0 && len(payloadContent) < 4096 {')),
 dict(name='helpers-scan-of-other-bytes', file=P, expect='flagged(envelope/unknown-fields)', find=ENV_TAIL,
      replace=_sub(ENV_TAIL_HELPERS, 'areUnknownAttributesAdded(payloadContent)', 'areUnknownAttributesAdded(payloadContent[:len(payloadContent)/2])')),
 dict(name='helpers-decode-over-prefilled-payload', file=P, expect='flagged(envelope/payload-decode-target-fresh)', find=ENV_TAIL,
      replace=_sub(ENV_TAIL_HELPERS, '\tvar signedPayload envelope.Payload\n', '\tsignedPayload := envelope.Payload{TargetArtifact: desc}\n')),
 dict(name='helpers-returns-unverified-signer-info', file=P, expect='flagged(envelope/returns-verified-bytes)', find=ENV_TAIL,
      replace=_sub(ENV_TAIL_HELPERS, '\treturn &envContent.SignerInfo, nil\n', '\tunverified, _ := sigEnv.Content()\n\treturn &unverified.SignerInfo, nil\n')),
 dict(name='helpers-annotations-stored-before-check', file=P, expect='flagged(envelope/state-after-checks)', find=ENV_TAIL,
      replace=_sub(ENV_TAIL_HELPERS, '\tsignerInfo, err := verifyGeneratedEnvelope(opts.SignatureMediaType, resp.SignatureEnvelope, desc)\n\tif err != nil {\n\t\treturn nil, nil, err\n\t}\n\ts.manifestAnnotations = resp.Annotations\n',
                   '\ts.manifestAnnotations = resp.Annotations\n\tsignerInfo, err := verifyGeneratedEnvelope(opts.SignatureMediaType, resp.SignatureEnvelope, desc)\n\tif err != nil {\n\t\treturn nil, nil, err\n\t}\n')),
 dict(name='helpers-descriptor-args-swapped', file=P, expect='flagged(envelope/annotations)', find=ENV_TAIL,
      replace=_sub(ENV_TAIL_HELPERS, 'isPayloadDescriptorValid(desc, signedPayload.TargetArtifact)', 'isPayloadDescriptorValid(signedPayload.TargetArtifact, desc)')),
 # ---- shape: Sign assigns (sig, signerInfo, err) in a switch and has one error test and one success return after it
 dict(name='benign-dispatch-merged-exit', file=P, expect='silent', find=SIGN_TAIL, replace=SIGN_TAIL_MERGED,
      why='merged variables come from the same call as the merged error that was tested'),
 dict(name='merged-dispatch-envelope-without-capability', file=P, expect='flagged(dispatch/Sign)', find=SIGN_TAIL,
      replace=_sub(SIGN_TAIL_MERGED, '\tcase metadata.HasCapability(plugin.CapabilityEnvelopeGenerator):\n\t\tsig, signerInfo, err = s.generateSignatureEnvelope(ctx, desc, opts)\n\tdefault:\n\t\treturn nil, nil, fmt.Errorf("plugin does not have signing capabilities")\n',
                   '\tdefault:\n\t\tsig, signerInfo, err = s.generateSignatureEnvelope(ctx, desc, opts)\n')),
 dict(name='merged-dispatch-keyspec-error-cleared', file=P, expect='flagged(dispatch/Sign)', find=SIGN_TAIL,
      replace=_sub(SIGN_TAIL_MERGED, '\t\t\tsig, signerInfo, err = s.generateSignature(ctx, desc, opts, ks, metadata, mergedConfig)\n\t\t}\n',
                   '\t\t\tsig, signerInfo, err = s.generateSignature(ctx, desc, opts, ks, metadata, mergedConfig)\n\t\t} else {\n\t\t\terr = nil\n\t\t}\n')),
 dict(name='merged-dispatch-error-test-dropped', file=P, expect='flagged(dispatch/Sign)', find=SIGN_TAIL,
      replace=_sub(SIGN_TAIL_MERGED, '\tif err != nil {\n\t\treturn nil, nil, fmt.Errorf("failed to sign with the plugin %s: %w", metadata.Name, err)\n\t}\n\treturn sig, signerInfo, nil\n',
                   '\tif err != nil {\n\t\tlogger.Debugf("failed to sign with the plugin %s: %v", metadata.Name, err)\n\t}\n\treturn sig, signerInfo, nil\n')),
 dict(name='merged-dispatch-signer-info-of-other-call', file=P, expect='flagged(dispatch/Sign)', find=SIGN_TAIL,
      replace=_sub(SIGN_TAIL_MERGED, '\t\tsig, signerInfo, err = s.generateSignatureEnvelope(ctx, desc, opts)\n',
                   '\t\tsig, signerInfo, err = s.generateSignatureEnvelope(ctx, desc, opts)\n\t\tif err == nil {\n\t\t\tsig, _, err = s.generateSignatureEnvelope(ctx, desc, opts)\n\t\t}\n')),
 # ---- shape: the scan uses maps.DeleteFunc over a constant key list and maps.Keys / slices.AppendSeq
 dict(name='benign-scan-library-forms', expect='silent', edits=[IMPORTS_LIB, (P, SCAN, SCAN_LIB)],
      why='maps.DeleteFunc with a membership test in a constant list of descriptor JSON names; maps.Keys + slices.AppendSeq report every key'),
 dict(name='library-scan-list-has-extra-key', expect='flagged(scan/removes-only-descriptor-fields)',
      edits=[IMPORTS_LIB, (P, SCAN, _sub(SCAN_LIB, '\t"artifactType",\n', '\t"artifactType",\n\t"subject",\n'))]),
 dict(name='library-scan-list-can-grow', expect='flagged(scan/removes-only-descriptor-fields)',
      edits=[IMPORTS_LIB, (P, SCAN, SCAN_LIB + '// AllowDescriptorAttribute registers a further descriptor attribute.\nfunc AllowDescriptorAttribute(k string) {\n\tknownDescriptorAttributes = append(knownDescriptorAttributes, k)\n}\n\n')]),
 dict(name='library-scan-predicate-wider-than-list', expect='flagged(scan/removes-only-descriptor-fields)',
      edits=[IMPORTS_LIB, (P, SCAN, _sub(SCAN_LIB, '\t\treturn slices.Contains(knownDescriptorAttributes, k)\n', '\t\treturn slices.Contains(knownDescriptorAttributes, k) || len(k) > 12\n'))]),
 dict(name='library-scan-outer-level-dropped', expect='flagged(scan/reports-both-levels)',
      edits=[IMPORTS_LIB, (P, SCAN, _sub(SCAN_LIB, '\tunknownAttributes = slices.AppendSeq(unknownAttributes, maps.Keys(targetArtifactMap))\n', ''))]),
 dict(name='library-scan-descriptor-keys-filtered', expect='flagged(scan/)',
      edits=[IMPORTS_LIB, (P, SCAN, _sub(SCAN_LIB, '\tunknownAttributes = slices.AppendSeq(unknownAttributes, maps.Keys(descriptor))\n',
                                         '\tfor k := range descriptor {\n\t\tif len(k) > 0 && k[0] != \'_\' {\n\t\t\tunknownAttributes = append(unknownAttributes, k)\n\t\t}\n\t}\n'))]),
 # ---- shape: the payload handed to the plugin is marshalled by a helper
 dict(name='benign-payload-marshalled-in-helper', expect='silent',
      edits=[(P, MARSHAL_FIND, MARSHAL_CALL), (P, MERGE_FN, MARSHAL_HELPER + MERGE_FN)],
      why='the bytes put into the request are result #0 of the helper\'s Marshal of the payload built from the helper\'s parameter = the requested descriptor'),
 dict(name='helper-marshals-other-descriptor', expect='flagged(envelope/request-payload)',
      edits=[(P, MARSHAL_FIND, _sub(MARSHAL_CALL, 'marshalPayload(desc)', 'marshalPayload(ocispec.Descriptor{MediaType: desc.MediaType, Digest: desc.Digest})')), (P, MERGE_FN, MARSHAL_HELPER + MERGE_FN)]),
 dict(name='helper-marshals-payload-without-target', expect='flagged(envelope/request-payload)',
      edits=[(P, MARSHAL_FIND, MARSHAL_CALL), (P, MERGE_FN, _sub(MARSHAL_HELPER, 'envelope.Payload{TargetArtifact: envelope.SanitizeTargetArtifact(target)}', 'envelope.Payload{TargetArtifact: ocispec.Descriptor{MediaType: target.MediaType}}') + MERGE_FN)]),
]

SETTER = 'func (s *PluginSigner) keepAnnotations(fromPlugin map[string]string) {\n\ts.manifestAnnotations = fromPlugin\n}\n\n'
VARIANTS += [
 # ---- shape: plugin output is stored in the signer by a setter method
 dict(name='benign-annotations-stored-by-setter', expect='silent',
      edits=[(P, '\ts.manifestAnnotations = resp.Annotations\n', '\ts.keepAnnotations(resp.Annotations)\n'), (P, MERGE_FN, SETTER + MERGE_FN)],
      why='the setter is called only after all checks'),
 dict(name='setter-annotations-stored-before-checks', expect='flagged(envelope/state-after-checks)',
      edits=[(P, '\ts.manifestAnnotations = resp.Annotations\n', ''),
             (P, '\t// Check signatureEnvelopeType is honored.\n', '\ts.keepAnnotations(resp.Annotations)\n\t// Check signatureEnvelopeType is honored.\n'),
             (P, MERGE_FN, SETTER + MERGE_FN)]),
]

# ===== second pass: filter-while-collecting scans; the chain parser found by value (inlined / handed the response) =====
SCAN_FILTER = r'''func areUnknownAttributesAdded(content []byte) []string {
	var payloadMap map[string]interface{}

	// Ignoring error because we already successfully unmarshalled before this
	// point
	_ = json.Unmarshal(content, &payloadMap)
	descriptor, _ := payloadMap["targetArtifact"].(map[string]interface{})

	unknownAttributes := make([]string, 0, len(descriptor)+len(payloadMap))
	for k := range descriptor {
		switch k {
		case "mediaType", "digest", "size", "urls", "annotations", "data", "platform", "artifactType":
			// expected descriptor key
		default:
			unknownAttributes = append(unknownAttributes, k)
		}
	}
	for k := range payloadMap {
		if k != "targetArtifact" {
			unknownAttributes = append(unknownAttributes, k)
		}
	}
	return unknownAttributes
}

'''

# two accumulators, if-chain with continue, `||` conditions, nil start value
SCAN_FILTER_TWO = r'''func areUnknownAttributesAdded(content []byte) []string {
	var decoded map[string]any
	_ = json.Unmarshal(content, &decoded)
	var extraInPayload []string
	for name := range decoded {
		if name == "targetArtifact" {
			continue
		}
		extraInPayload = append(extraInPayload, name)
	}
	extraInDescriptor := []string{}
	target, _ := decoded["targetArtifact"].(map[string]any)
	for name := range target {
		if name == "mediaType" || name == "digest" || name == "size" || name == "urls" {
			continue
		}
		if name == "annotations" || name == "data" || name == "platform" || name == "artifactType" {
			continue
		}
		extraInDescriptor = append(extraInDescriptor, name)
	}
	return append(extraInDescriptor, extraInPayload...)
}

'''

# descriptor level: slices.Contains over a constant list; payload level: delete + the key-set helper (mixed spelling)
SCAN_FILTER_MIXED = r'''var descriptorAttributes = []string{"mediaType", "digest", "size", "urls", "annotations", "data", "platform", "artifactType"}

func areUnknownAttributesAdded(content []byte) []string {
	var payloadMap map[string]interface{}
	_ = json.Unmarshal(content, &payloadMap)
	descriptor, _ := payloadMap["targetArtifact"].(map[string]interface{})
	var unknownAttributes []string
	for k := range descriptor {
		if !slices.Contains(descriptorAttributes, k) {
			unknownAttributes = append(unknownAttributes, k)
		}
	}
	delete(payloadMap, "targetArtifact")
	return append(unknownAttributes, getKeySet(payloadMap)...)
}

'''
IMPORT_SLICES = (P, '\t"fmt"\n\t"time"\n', '\t"fmt"\n\t"slices"\n\t"time"\n')

VARIANTS += [
 # ---- shape: the scan filters while it collects (range + switch / if chain / slices.Contains), one or two accumulators
 dict(name='benign-scan-filter-while-collecting', file=P, expect='silent', find=SCAN, replace=SCAN_FILTER,
      why='every key not compared equal to a descriptor JSON name (or targetArtifact at the payload level) is appended to the slice returned'),
 dict(name='benign-scan-filter-two-accumulators', file=P, expect='silent', find=SCAN, replace=SCAN_FILTER_TWO,
      why='one accumulator per level, joined by append at the return; guard clauses with continue; payload level first'),
 dict(name='benign-scan-filter-mixed-with-delete', expect='silent', edits=[IMPORT_SLICES, (P, SCAN, SCAN_FILTER_MIXED)],
      why='descriptor level filtered by slices.Contains over a constant list, payload level by delete + key-set helper'),
 dict(name='filter-scan-extra-key-allowed', file=P, expect='flagged(scan/removes-only-descriptor-fields)', find=SCAN,
      replace=_sub(SCAN_FILTER, '"platform", "artifactType":', '"platform", "artifactType", "subject":')),
 dict(name='filter-scan-payload-level-extra-key-allowed', file=P, expect='flagged(scan/removes-only-descriptor-fields)', find=SCAN,
      replace=_sub(SCAN_FILTER, 'if k != "targetArtifact" {', 'if k != "targetArtifact" && k != "signingScheme" {')),
 dict(name='filter-scan-target-artifact-allowed-inside-descriptor', file=P, expect='flagged(scan/removes-only-descriptor-fields)', find=SCAN,
      replace=_sub(SCAN_FILTER, '"platform", "artifactType":', '"platform", "artifactType", "targetArtifact":')),
 dict(name='filter-scan-nonconstant-filter', file=P, expect='flagged(scan/reports-both-levels)', find=SCAN,
      replace=_sub(SCAN_FILTER, '\t\tdefault:\n\t\t\tunknownAttributes = append(unknownAttributes, k)\n', '\t\tdefault:\n\t\t\tif len(k) < 12 {\n\t\t\t\tunknownAttributes = append(unknownAttributes, k)\n\t\t\t}\n')),
 dict(name='filter-scan-accumulator-reset-between-levels', file=P, expect='flagged(scan/reports-both-levels)', find=SCAN,
      replace=_sub(SCAN_FILTER, '\tfor k := range payloadMap {\n', '\tunknownAttributes = unknownAttributes[:0]\n\tfor k := range payloadMap {\n')),
 dict(name='filter-scan-stale-accumulator', file=P, expect='flagged(scan/reports-both-levels)', find=SCAN,
      replace=_sub(_sub(SCAN_FILTER, '\tunknownAttributes := make([]string, 0, len(descriptor)+len(payloadMap))\n', '\tunknownAttributes := make([]string, 0, len(descriptor)+len(payloadMap))\n\tnone := unknownAttributes\n'),
                   '\t\tdefault:\n\t\t\tunknownAttributes = append(unknownAttributes, k)\n', '\t\tdefault:\n\t\t\tunknownAttributes = append(none, k)\n')),
 dict(name='filter-scan-loop-left-early', file=P, expect='flagged(scan/reports-both-levels)', find=SCAN,
      replace=_sub(SCAN_FILTER, '\t\tif k != "targetArtifact" {\n\t\t\tunknownAttributes = append(unknownAttributes, k)\n\t\t}\n', '\t\tif k == "targetArtifact" {\n\t\t\tbreak\n\t\t}\n\t\tunknownAttributes = append(unknownAttributes, k)\n')),
 dict(name='filter-scan-early-return-without-descriptor', file=P, expect='flagged(scan/reports-both-levels)', find=SCAN,
      replace=_sub(SCAN_FILTER, '\tunknownAttributes := make(', '\tif len(descriptor) == 0 {\n\t\treturn nil\n\t}\n\tunknownAttributes := make(')),
 dict(name='filter-scan-descriptor-level-not-ranged', file=P, expect='flagged(scan/reports-both-levels)', find=SCAN,
      replace=_sub(SCAN_FILTER, '\tfor k := range descriptor {\n', '\tfor k := range payloadMap {\n')),
 dict(name='filter-scan-one-accumulator-returned', file=P, expect='flagged(scan/reports-both-levels)', find=SCAN,
      replace=_sub(SCAN_FILTER_TWO, '\treturn append(extraInDescriptor, extraInPayload...)\n', '\treturn extraInDescriptor\n')),
 dict(name='filter-scan-two-accumulators-skip-unequal', file=P, expect='flagged(scan/)', find=SCAN,
      replace=_sub(SCAN_FILTER_TWO, '\t\tif name == "targetArtifact" {\n\t\t\tcontinue\n\t\t}\n', '\t\tif name != "signingScheme" {\n\t\t\tcontinue\n\t\t}\n')),
 dict(name='filter-scan-list-has-extra-key', expect='flagged(scan/removes-only-descriptor-fields)',
      edits=[IMPORT_SLICES, (P, SCAN, _sub(SCAN_FILTER_MIXED, '"platform", "artifactType"}', '"platform", "artifactType", "subject"}'))]),
 dict(name='filter-scan-list-can-grow', expect='flagged(scan/)',
      edits=[IMPORT_SLICES, (P, SCAN, SCAN_FILTER_MIXED + '// AllowDescriptorAttribute registers a further descriptor attribute.\nfunc AllowDescriptorAttribute(k string) {\n\tdescriptorAttributes = append(descriptorAttributes, k)\n}\n\n')]),
 dict(name='filter-scan-mixed-payload-level-dropped', expect='flagged(scan/reports-both-levels)',
      edits=[IMPORT_SLICES, (P, SCAN, _sub(SCAN_FILTER_MIXED, '\treturn append(unknownAttributes, getKeySet(payloadMap)...)\n', '\treturn unknownAttributes\n'))]),
]

CHAIN_CALL = '\tvar certs []*x509.Certificate\n\tif certs, err = parseCertChain(resp.CertificateChain); err != nil {\n\t\treturn nil, nil, err\n\t}\n\treturn resp.Signature, certs, nil\n'
CHAIN_INLINE = '\tcerts := make([]*x509.Certificate, len(resp.CertificateChain))\n\tfor i, der := range resp.CertificateChain {\n\t\tif certs[i], err = x509.ParseCertificate(der); err != nil {\n\t\t\treturn nil, nil, err\n\t\t}\n\t}\n\treturn resp.Signature, certs, nil\n'
CHAIN_INLINE_APPEND = '\tcerts := make([]*x509.Certificate, 0, len(resp.CertificateChain))\n\tfor i := 0; i < len(resp.CertificateChain); i++ {\n\t\tparsed, parseErr := x509.ParseCertificate(resp.CertificateChain[i])\n\t\tif parseErr != nil {\n\t\t\treturn nil, nil, parseErr\n\t\t}\n\t\tcerts = append(certs, parsed)\n\t}\n\treturn resp.Signature, certs, nil\n'
CHAIN_INLINE_LOGGED = '\tfor i, der := range resp.CertificateChain {\n\t\tlog.GetLogger(s.ctx).Debugf("certificate %d: %d bytes", i, len(der))\n\t}\n' + CHAIN_INLINE
CHAIN_PARSER = 'func parseCertChain(certChain [][]byte) ([]*x509.Certificate, error) {\n\tcerts := make([]*x509.Certificate, len(certChain))\n\tfor i, cert := range certChain {\n\t\tcert, err := x509.ParseCertificate(cert)\n\t\tif err != nil {\n\t\t\treturn nil, err\n\t\t}\n\t\tcerts[i] = cert\n\t}\n\treturn certs, nil\n}\n'
CHAIN_PARSER_RESP = 'func parseCertChain(keyID string, answer *plugin.GenerateSignatureResponse) ([]*x509.Certificate, error) {\n\tcerts := make([]*x509.Certificate, len(answer.CertificateChain))\n\tfor i, cert := range answer.CertificateChain {\n\t\tcert, err := x509.ParseCertificate(cert)\n\t\tif err != nil {\n\t\t\treturn nil, fmt.Errorf("certificate %d of key %s: %w", i, keyID, err)\n\t\t}\n\t\tcerts[i] = cert\n\t}\n\treturn certs, nil\n}\n'
CHAIN_CALL_RESP = CHAIN_CALL.replace('parseCertChain(resp.CertificateChain)', 'parseCertChain(req.KeyID, resp)')

VARIANTS += [
 # ---- shape: the chain parser is inlined into the function that calls GenerateSignature
 dict(name='benign-cert-chain-parsed-inline', file=P, expect='silent', find=CHAIN_CALL, replace=CHAIN_INLINE,
      why='the loop over the response chain fails closed on the first parse error; the slice it fills is returned'),
 dict(name='benign-cert-chain-parsed-inline-append', file=P, expect='silent', find=CHAIN_CALL, replace=CHAIN_INLINE_APPEND,
      why='explicit index loop, append instead of indexed store, own error variable'),
 dict(name='benign-cert-chain-parsed-inline-after-logging-loop', file=P, expect='silent', find=CHAIN_CALL, replace=CHAIN_INLINE_LOGGED,
      why='a second loop over the chain that only logs does not matter'),
 dict(name='inline-cert-parse-error-skipped', file=P, expect='flagged(raw/generate-signature/cert-chain-parses)', find=CHAIN_CALL,
      replace=_sub(CHAIN_INLINE, '\t\tif certs[i], err = x509.ParseCertificate(der); err != nil {\n\t\t\treturn nil, nil, err\n\t\t}\n', '\t\tif certs[i], err = x509.ParseCertificate(der); err != nil {\n\t\t\tcontinue\n\t\t}\n')),
 dict(name='inline-cert-parse-error-returns-success', file=P, expect='flagged(raw/generate-signature/cert-chain-parses)', find=CHAIN_CALL,
      replace=_sub(CHAIN_INLINE, '\t\t\treturn nil, nil, err\n\t\t}\n\t}\n', '\t\t\treturn resp.Signature, certs[:i], nil\n\t\t}\n\t}\n')),
 dict(name='inline-cert-chain-only-leaf-parsed', file=P, expect='flagged(raw/generate-signature/cert-chain-parses)', find=CHAIN_CALL,
      replace=_sub(CHAIN_INLINE, '\tfor i, der := range resp.CertificateChain {\n', '\tfor i, der := range resp.CertificateChain[:min(1, len(resp.CertificateChain))] {\n')),
 dict(name='inline-cert-chain-loop-skipped-for-long-chains', file=P, expect='flagged(raw/generate-signature/cert-chain-parses)', find=CHAIN_CALL,
      replace=_sub(CHAIN_INLINE, '\treturn resp.Signature, certs, nil\n', '\treturn resp.Signature, certs, nil\n').replace('\tfor i, der := range resp.CertificateChain {\n', '\tif len(resp.CertificateChain) > 8 {\n\t\treturn resp.Signature, certs, nil\n\t}\n\tfor i, der := range resp.CertificateChain {\n')),
 dict(name='inline-returns-other-certificates', file=P, expect='flagged(raw/generate-signature/returns)', find=CHAIN_CALL,
      replace=_sub(CHAIN_INLINE_APPEND, '\treturn resp.Signature, certs, nil\n', '\treturn resp.Signature, make([]*x509.Certificate, len(certs)), nil\n')),
 # ---- shape: the chain parser is handed the whole response (and more) instead of the chain
 dict(name='benign-cert-chain-parser-takes-response', expect='silent', edits=[(P, CHAIN_CALL, CHAIN_CALL_RESP), (P, CHAIN_PARSER, CHAIN_PARSER_RESP)],
      why='the helper ranges over the CertificateChain of the response it is handed; its error is tested by the caller'),
 dict(name='response-parser-error-ignored', expect='flagged(raw/generate-signature/cert-chain-parses)',
      edits=[(P, CHAIN_CALL, '\tcerts, _ := parseCertChain(req.KeyID, resp)\n\treturn resp.Signature, certs, nil\n'), (P, CHAIN_PARSER, CHAIN_PARSER_RESP)]),
 dict(name='response-parser-skips-unparsable', expect='flagged(raw/cert-chain-parser)',
      edits=[(P, CHAIN_CALL, CHAIN_CALL_RESP), (P, CHAIN_PARSER, _sub(CHAIN_PARSER_RESP, '\t\t\treturn nil, fmt.Errorf("certificate %d of key %s: %w", i, keyID, err)\n', '\t\t\tcontinue\n'))]),
 dict(name='response-parser-of-other-response', expect='flagged(raw/generate-signature/)',
      edits=[(P, CHAIN_CALL, CHAIN_CALL.replace('parseCertChain(resp.CertificateChain)', 'parseCertChain(req.KeyID, &plugin.GenerateSignatureResponse{KeyID: resp.KeyID})')), (P, CHAIN_PARSER, CHAIN_PARSER_RESP)]),
]

# the descriptor-level filter is a module predicate (switch with returns / one boolean expression)
SCAN_FILTER_PRED = r'''func isDescriptorAttribute(name string) bool {
	switch name {
	case "mediaType", "digest", "size", "urls":
		return true
	case "annotations", "data", "platform", "artifactType":
		return true
	}
	return false
}

func areUnknownAttributesAdded(content []byte) []string {
	var payloadMap map[string]interface{}
	_ = json.Unmarshal(content, &payloadMap)
	descriptor, _ := payloadMap["targetArtifact"].(map[string]interface{})
	unknownAttributes := []string{}
	for k := range descriptor {
		if !isDescriptorAttribute(k) {
			unknownAttributes = append(unknownAttributes, k)
		}
	}
	for k := range payloadMap {
		if k == "targetArtifact" {
			continue
		}
		unknownAttributes = append(unknownAttributes, k)
	}
	return unknownAttributes
}

'''
PRED_SWITCH = 'func isDescriptorAttribute(name string) bool {\n\tswitch name {\n\tcase "mediaType", "digest", "size", "urls":\n\t\treturn true\n\tcase "annotations", "data", "platform", "artifactType":\n\t\treturn true\n\t}\n\treturn false\n}\n'
PRED_EXPR = 'func isDescriptorAttribute(name string) bool {\n\treturn name == "mediaType" || name == "digest" || name == "size" || name == "urls" ||\n\t\tname == "annotations" || name == "data" || name == "platform" || name == "artifactType"\n}\n'

VARIANTS += [
 dict(name='benign-scan-filter-module-predicate', file=P, expect='silent', find=SCAN, replace=SCAN_FILTER_PRED,
      why='the predicate returns true only for descriptor JSON names; every other key is appended'),
 dict(name='benign-scan-filter-module-predicate-expression', file=P, expect='silent', find=SCAN, replace=_sub(SCAN_FILTER_PRED, PRED_SWITCH, PRED_EXPR),
      why='same predicate written as one boolean expression'),
 dict(name='filter-scan-predicate-accepts-long-names', file=P, expect='flagged(scan/)', find=SCAN,
      replace=_sub(SCAN_FILTER_PRED, '\treturn false\n}\n', '\treturn len(name) > 12\n}\n')),
 dict(name='filter-scan-predicate-has-extra-key', file=P, expect='flagged(scan/removes-only-descriptor-fields)', find=SCAN,
      replace=_sub(SCAN_FILTER_PRED, '"platform", "artifactType":', '"platform", "artifactType", "subject":')),
 dict(name='filter-scan-predicate-expression-prefix-match', file=P, expect='flagged(scan/)', find=SCAN,
      replace=_sub(_sub(SCAN_FILTER_PRED, PRED_SWITCH, PRED_EXPR), 'name == "artifactType"\n', 'name == "artifactType" || (len(name) > 2 && name[:2] == "x-")\n')),
 dict(name='filter-scan-predicate-negation-lost', file=P, expect='flagged(scan/)', find=SCAN,
      replace=_sub(SCAN_FILTER_PRED, '\t\tif !isDescriptorAttribute(k) {\n', '\t\tif isDescriptorAttribute(k) {\n')),
]

VARIANTS += [
 dict(name='benign-scan-filter-comma-ok-lookup', file=P, expect='silent', find=SCAN,
      replace=_sub(SCAN_FILTER, '\tdescriptor, _ := payloadMap["targetArtifact"].(map[string]interface{})\n',
                   '\tvar descriptor map[string]interface{}\n\tif member, present := payloadMap["targetArtifact"]; present {\n\t\tdescriptor, _ = member.(map[string]interface{})\n\t}\n'),
      why='the descriptor level is the comma-ok assertion of the comma-ok lookup of targetArtifact; nil when absent'),
 dict(name='filter-scan-descriptor-of-other-member', file=P, expect='flagged(scan/reports-both-levels)', find=SCAN,
      replace=_sub(SCAN_FILTER, '\tdescriptor, _ := payloadMap["targetArtifact"].(map[string]interface{})\n', '\tdescriptor, _ := payloadMap["target"].(map[string]interface{})\n')),
]

VARIANTS += [
 dict(name='filter-scan-descriptor-level-only-for-small-payloads', file=P, expect='flagged(scan/reports-both-levels)', find=SCAN,
      replace=_sub(SCAN_FILTER, '\tdescriptor, _ := payloadMap["targetArtifact"].(map[string]interface{})\n',
                   '\tvar descriptor map[string]interface{}\n\tif len(content) < 4096 {\n\t\tdescriptor, _ = payloadMap["targetArtifact"].(map[string]interface{})\n\t}\n')),
]

# ===== third pass: the known keys are held in a TABLE (map / slice / array, local or package-level) that the scan consults =====
KNOWN8 = '"mediaType", "digest", "size", "urls", "annotations", "data", "platform", "artifactType"'

# (held-out refactoring 1) package-level set, comma-ok lookup, single pass; the payload-level key is a named constant
SCAN_TABLE_MAP = r'''// payloadTargetArtifactKey is the only attribute expected in the signed payload.
const payloadTargetArtifactKey = "targetArtifact"

// knownDescriptorAttributes are the attributes expected in the target artifact descriptor.
var knownDescriptorAttributes = map[string]struct{}{
	"mediaType":    {},
	"digest":       {},
	"size":         {},
	"urls":         {},
	"annotations":  {},
	"data":         {},
	"platform":     {},
	"artifactType": {},
}

func areUnknownAttributesAdded(content []byte) []string {
	var payloadMap map[string]interface{}
	_ = json.Unmarshal(content, &payloadMap)
	descriptor, _ := payloadMap[payloadTargetArtifactKey].(map[string]interface{})

	unknownAttributes := make([]string, 0, len(descriptor)+len(payloadMap))
	for k := range descriptor {
		if _, known := knownDescriptorAttributes[k]; !known {
			unknownAttributes = append(unknownAttributes, k)
		}
	}
	for k := range payloadMap {
		if k != payloadTargetArtifactKey {
			unknownAttributes = append(unknownAttributes, k)
		}
	}
	return unknownAttributes
}

'''

# local bool-valued sets for both levels, value lookup, guard clause with continue
SCAN_TABLE_BOOLMAP = r'''func areUnknownAttributesAdded(content []byte) []string {
	expectedInDescriptor := map[string]bool{"mediaType": true, "digest": true, "size": true, "urls": true,
		"annotations": true, "data": true, "platform": true, "artifactType": true}
	expectedInPayload := map[string]bool{"targetArtifact": true}
	var decoded map[string]any
	_ = json.Unmarshal(content, &decoded)
	target, _ := decoded["targetArtifact"].(map[string]any)
	var extra []string
	for name := range decoded {
		if expectedInPayload[name] {
			continue
		}
		extra = append(extra, name)
	}
	for name := range target {
		if expectedInDescriptor[name] {
			continue
		}
		extra = append(extra, name)
	}
	return extra
}

'''

# package-level list searched by a hand-written loop that records the outcome in a flag (no break: the flag is a loop-carried phi)
SCAN_TABLE_FLAG = r'''var descriptorAttributes = []string{''' + KNOWN8 + r'''}

func areUnknownAttributesAdded(content []byte) []string {
	var payloadMap map[string]interface{}
	_ = json.Unmarshal(content, &payloadMap)
	descriptor, _ := payloadMap["targetArtifact"].(map[string]interface{})
	unknownAttributes := []string{}
	for k := range descriptor {
		known := false
		for _, attribute := range descriptorAttributes {
			if attribute == k {
				known = true
			}
		}
		if !known {
			unknownAttributes = append(unknownAttributes, k)
		}
	}
	for k := range payloadMap {
		if k != "targetArtifact" {
			unknownAttributes = append(unknownAttributes, k)
		}
	}
	return unknownAttributes
}

'''
FLAG_LOOP = '\t\tknown := false\n\t\tfor _, attribute := range descriptorAttributes {\n\t\t\tif attribute == k {\n\t\t\t\tknown = true\n\t\t\t}\n\t\t}\n\t\tif !known {\n\t\t\tunknownAttributes = append(unknownAttributes, k)\n\t\t}\n'
# the same with break, index loop and the flag in the opposite sense, set by a switch
FLAG_LOOP_BREAK = '\t\tunknown := true\n\t\tfor i := 0; i < len(descriptorAttributes); i++ {\n\t\t\tif k == descriptorAttributes[i] {\n\t\t\t\tunknown = false\n\t\t\t\tbreak\n\t\t\t}\n\t\t}\n\t\tif unknown {\n\t\t\tunknownAttributes = append(unknownAttributes, k)\n\t\t}\n'

# module predicates over a table: lookup in a set / search loop over a list
PRED_LOOKUP = 'var descriptorAttributeSet = map[string]struct{}{"mediaType": {}, "digest": {}, "size": {}, "urls": {}, "annotations": {}, "data": {}, "platform": {}, "artifactType": {}}\n\nfunc isDescriptorAttribute(name string) bool {\n\t_, found := descriptorAttributeSet[name]\n\treturn found\n}\n'
PRED_SEARCH = 'var descriptorAttributeList = []string{' + KNOWN8 + '}\n\nfunc isDescriptorAttribute(name string) bool {\n\tfor _, attribute := range descriptorAttributeList {\n\t\tif attribute == name {\n\t\t\treturn true\n\t\t}\n\t}\n\treturn false\n}\n'
PRED_SEARCH_FLAG = 'var descriptorAttributeList = []string{' + KNOWN8 + '}\n\nfunc isDescriptorAttribute(name string) bool {\n\tfound := false\n\tfor _, attribute := range descriptorAttributeList {\n\t\tfound = found || attribute == name\n\t}\n\treturn found\n}\n'

# table-driven removal, then collect (the base shape with the eight delete statements folded into a loop over a table)
SCAN_TABLE_DELETE = r'''var descriptorAttributes = []string{''' + KNOWN8 + r'''}

func areUnknownAttributesAdded(content []byte) []string {
	var targetArtifactMap map[string]interface{}
	_ = json.Unmarshal(content, &targetArtifactMap)
	descriptor, _ := targetArtifactMap["targetArtifact"].(map[string]interface{})

	// Explicitly remove expected keys to check if any are left over
	for _, attribute := range descriptorAttributes {
		delete(descriptor, attribute)
	}
	delete(targetArtifactMap, "targetArtifact")

	unknownAttributes := append(getKeySet(descriptor), getKeySet(targetArtifactMap)...)
	return unknownAttributes
}

'''
# the same driven by the keys of a package-level set
SCAN_TABLE_DELETE_SET = _sub(_sub(SCAN_TABLE_DELETE, 'var descriptorAttributes = []string{' + KNOWN8 + '}', 'var descriptorAttributes = map[string]bool{"mediaType": true, "digest": true, "size": true, "urls": true, "annotations": true, "data": true, "platform": true, "artifactType": true}'),
                             '\tfor _, attribute := range descriptorAttributes {\n', '\tfor attribute := range descriptorAttributes {\n')

# package-level array, slices.Index / slices.BinarySearch
SCAN_TABLE_ARRAY = r'''var descriptorAttributes = [...]string{"annotations", "artifactType", "data", "digest", "mediaType", "platform", "size", "urls"}

func areUnknownAttributesAdded(content []byte) []string {
	var payloadMap map[string]interface{}
	_ = json.Unmarshal(content, &payloadMap)
	descriptor, _ := payloadMap["targetArtifact"].(map[string]interface{})
	var unknownAttributes []string
	for k := range descriptor {
		if slices.Index(descriptorAttributes[:], k) < 0 {
			unknownAttributes = append(unknownAttributes, k)
		}
	}
	for k := range payloadMap {
		if k != "targetArtifact" {
			unknownAttributes = append(unknownAttributes, k)
		}
	}
	return unknownAttributes
}

'''
# local set built from a local list by a loop
SCAN_TABLE_BUILT = r'''func areUnknownAttributesAdded(content []byte) []string {
	expected := make(map[string]struct{})
	for _, attribute := range []string{''' + KNOWN8 + r'''} {
		expected[attribute] = struct{}{}
	}
	var payloadMap map[string]interface{}
	_ = json.Unmarshal(content, &payloadMap)
	descriptor, _ := payloadMap["targetArtifact"].(map[string]interface{})
	var unknownAttributes []string
	for k := range descriptor {
		if _, ok := expected[k]; ok {
			continue
		}
		unknownAttributes = append(unknownAttributes, k)
	}
	for k := range payloadMap {
		if k != "targetArtifact" {
			unknownAttributes = append(unknownAttributes, k)
		}
	}
	return unknownAttributes
}

'''
IMPORT_STRINGS = (P, '\t"fmt"\n\t"time"\n', '\t"fmt"\n\t"strings"\n\t"time"\n')
GROW_MAP = '// AllowDescriptorAttribute registers a further descriptor attribute.\nfunc AllowDescriptorAttribute(k string) {\n\tknownDescriptorAttributes[k] = struct{}{}\n}\n\n'

VARIANTS += [
 # ---- shape: the known keys are a package-level set, consulted by a comma-ok lookup (held-out refactoring 1)
 dict(name='benign-scan-table-set-lookup', file=P, expect='silent', find=SCAN, replace=SCAN_TABLE_MAP,
      why='a key is skipped only if it is in a map that only ever holds the eight descriptor JSON names'),
 dict(name='benign-scan-table-local-bool-sets', file=P, expect='silent', find=SCAN, replace=SCAN_TABLE_BOOLMAP,
      why='local bool-valued sets for both levels; table[key] is true only for a key of the map'),
 dict(name='benign-scan-table-local-set-built-from-list', file=P, expect='silent', find=SCAN, replace=SCAN_TABLE_BUILT,
      why='the set is filled from a literal list of constants'),
 dict(name='table-set-has-extra-key', file=P, expect='flagged(scan/removes-only-descriptor-fields)', find=SCAN,
      replace=_sub(SCAN_TABLE_MAP, '\t"artifactType": {},\n', '\t"artifactType": {},\n\t"subject":      {},\n')),
 dict(name='table-set-has-target-artifact', file=P, expect='flagged(scan/removes-only-descriptor-fields)', find=SCAN,
      replace=_sub(SCAN_TABLE_MAP, '\t"artifactType": {},\n', '\t"artifactType": {},\n\tpayloadTargetArtifactKey: {},\n')),
 dict(name='table-set-can-grow', file=P, expect='flagged(scan/)', find=SCAN, replace=SCAN_TABLE_MAP + GROW_MAP),
 dict(name='table-set-handed-out', file=P, expect='flagged(scan/)', find=SCAN,
      replace=SCAN_TABLE_MAP + '// DescriptorAttributes returns the attributes a plugin may set.\nfunc DescriptorAttributes() map[string]struct{} {\n\treturn knownDescriptorAttributes\n}\n\n'),
 dict(name='table-set-lookup-of-lowercased-key', expect='flagged(scan/)',
      edits=[IMPORT_STRINGS, (P, SCAN, _sub(SCAN_TABLE_MAP, 'knownDescriptorAttributes[k]; !known', 'knownDescriptorAttributes[strings.ToLower(k)]; !known'))]),
 dict(name='table-set-lookup-negation-lost', file=P, expect='flagged(scan/)', find=SCAN,
      replace=_sub(SCAN_TABLE_MAP, 'knownDescriptorAttributes[k]; !known', 'knownDescriptorAttributes[k]; known')),
 dict(name='table-set-payload-level-not-filtered-by-constant', file=P, expect='flagged(scan/)', find=SCAN,
      replace=_sub(SCAN_TABLE_MAP, '\t\tif k != payloadTargetArtifactKey {\n', '\t\tif _, known := payloadMap[k+"!"]; known {\n')),
 dict(name='table-bool-set-negation-lost', file=P, expect='flagged(scan/)', find=SCAN,
      replace=_sub(SCAN_TABLE_BOOLMAP, '\t\tif expectedInDescriptor[name] {\n', '\t\tif !expectedInDescriptor[name] {\n')),
 dict(name='table-bool-set-extended-while-scanning', file=P, expect='flagged(scan/)', find=SCAN,
      replace=_sub(SCAN_TABLE_BOOLMAP, '\tfor name := range target {\n', '\tfor name := range decoded {\n\t\texpectedInDescriptor[name] = true\n\t}\n\tfor name := range target {\n')),
 dict(name='table-bool-sets-swapped', file=P, expect='flagged(scan/removes-only-descriptor-fields)', find=SCAN,
      replace=_sub(_sub(SCAN_TABLE_BOOLMAP, '\t\tif expectedInPayload[name] {\n', '\t\tif expectedInDescriptor[name] {\n'), '\t\tif expectedInDescriptor[name] {\n\t\t\tcontinue\n\t\t}\n\t\textra = append(extra, name)\n\t}\n\treturn', '\t\tif expectedInPayload[name] {\n\t\t\tcontinue\n\t\t}\n\t\textra = append(extra, name)\n\t}\n\treturn')),
 dict(name='table-built-set-filled-from-payload', file=P, expect='flagged(scan/)', find=SCAN,
      replace=_sub(SCAN_TABLE_BUILT, '\tvar payloadMap map[string]interface{}\n\t_ = json.Unmarshal(content, &payloadMap)\n', '\tvar payloadMap map[string]interface{}\n\t_ = json.Unmarshal(content, &payloadMap)\n\tfor attribute := range payloadMap {\n\t\texpected[attribute] = struct{}{}\n\t}\n')),
 # ---- shape: the outcome of the search is recorded in a flag that is acted upon later
 dict(name='benign-scan-table-search-loop-flag', file=P, expect='silent', find=SCAN, replace=SCAN_TABLE_FLAG,
      why='the flag is reset for every key and set only where the key was compared equal to an element of the constant list'),
 dict(name='benign-scan-table-search-loop-flag-inverted-break', file=P, expect='silent', find=SCAN, replace=_sub(SCAN_TABLE_FLAG, FLAG_LOOP, FLAG_LOOP_BREAK),
      why='index loop with break, flag in the opposite sense'),
 dict(name='flag-not-reset-per-key', file=P, expect='flagged(scan/)', find=SCAN,
      replace=_sub(_sub(SCAN_TABLE_FLAG, '\t\tknown := false\n', ''), '\tfor k := range descriptor {\n', '\tknown := false\n\tfor k := range descriptor {\n')),
 dict(name='flag-set-for-long-keys', file=P, expect='flagged(scan/)', find=SCAN,
      replace=_sub(SCAN_TABLE_FLAG, '\t\t\tif attribute == k {\n', '\t\t\tif attribute == k || len(k) > 12 {\n')),
 dict(name='flag-starts-true', file=P, expect='flagged(scan/)', find=SCAN,
      replace=_sub(SCAN_TABLE_FLAG, '\t\tknown := false\n', '\t\tknown := len(descriptor) > 8\n')),
 dict(name='flag-compares-case-insensitively', expect='flagged(scan/)',
      edits=[IMPORT_STRINGS, (P, SCAN, _sub(SCAN_TABLE_FLAG, '\t\t\tif attribute == k {\n', '\t\t\tif strings.EqualFold(attribute, k) {\n'))]),
 dict(name='flag-inverted-sense-lost', file=P, expect='flagged(scan/)', find=SCAN,
      replace=_sub(_sub(SCAN_TABLE_FLAG, FLAG_LOOP, FLAG_LOOP_BREAK), '\t\tif unknown {\n', '\t\tif !unknown {\n')),
 dict(name='flag-list-has-extra-key', file=P, expect='flagged(scan/removes-only-descriptor-fields)', find=SCAN,
      replace=_sub(SCAN_TABLE_FLAG, '"platform", "artifactType"}', '"platform", "artifactType", "subject"}')),
 # ---- shape: module predicate over a table
 dict(name='benign-scan-filter-predicate-set-lookup', file=P, expect='silent', find=SCAN, replace=_sub(SCAN_FILTER_PRED, PRED_SWITCH, PRED_LOOKUP),
      why='the predicate is the ok half of a lookup in a constant set'),
 dict(name='benign-scan-filter-predicate-search-loop', file=P, expect='silent', find=SCAN, replace=_sub(SCAN_FILTER_PRED, PRED_SWITCH, PRED_SEARCH),
      why='the predicate returns true only from inside a comparison with an element of a constant list'),
 dict(name='benign-scan-filter-predicate-search-loop-flag', file=P, expect='silent', find=SCAN, replace=_sub(SCAN_FILTER_PRED, PRED_SWITCH, PRED_SEARCH_FLAG),
      why='accumulated with ||'),
 dict(name='predicate-set-has-extra-key', file=P, expect='flagged(scan/removes-only-descriptor-fields)', find=SCAN,
      replace=_sub(_sub(SCAN_FILTER_PRED, PRED_SWITCH, PRED_LOOKUP), '"artifactType": {}}', '"artifactType": {}, "subject": {}}')),
 dict(name='predicate-search-loop-prefix-match', expect='flagged(scan/)',
      edits=[IMPORT_STRINGS, (P, SCAN, _sub(_sub(SCAN_FILTER_PRED, PRED_SWITCH, PRED_SEARCH), '\t\tif attribute == name {\n', '\t\tif strings.HasPrefix(name, attribute) {\n'))]),
 dict(name='predicate-search-loop-default-true', file=P, expect='flagged(scan/)', find=SCAN,
      replace=_sub(_sub(SCAN_FILTER_PRED, PRED_SWITCH, PRED_SEARCH), '\t\t\treturn true\n\t\t}\n\t}\n\treturn false\n', '\t\t\treturn true\n\t\t}\n\t}\n\treturn len(name) == 0\n')),
 dict(name='predicate-search-loop-flag-starts-true-for-some', file=P, expect='flagged(scan/)', find=SCAN,
      replace=_sub(_sub(SCAN_FILTER_PRED, PRED_SWITCH, PRED_SEARCH_FLAG), '\tfound := false\n', '\tfound := len(name) > 12\n')),
 # ---- shape: table-driven removal, then collect
 dict(name='benign-scan-table-driven-delete', file=P, expect='silent', find=SCAN, replace=SCAN_TABLE_DELETE,
      why='the keys removed are elements of a constant list of descriptor JSON names'),
 dict(name='benign-scan-table-driven-delete-set-keys', file=P, expect='silent', find=SCAN, replace=SCAN_TABLE_DELETE_SET,
      why='the keys removed are keys of a constant set'),
 dict(name='table-delete-list-has-extra-key', file=P, expect='flagged(scan/removes-only-descriptor-fields)', find=SCAN,
      replace=_sub(SCAN_TABLE_DELETE, '"platform", "artifactType"}', '"platform", "artifactType", "subject"}')),
 dict(name='table-delete-list-can-grow', file=P, expect='flagged(scan/removes-only-descriptor-fields)', find=SCAN,
      replace=SCAN_TABLE_DELETE + '// AllowDescriptorAttribute registers a further descriptor attribute.\nfunc AllowDescriptorAttribute(k string) {\n\tdescriptorAttributes = append(descriptorAttributes, k)\n}\n\n'),
 dict(name='table-delete-list-element-overwritten', file=P, expect='flagged(scan/removes-only-descriptor-fields)', find=SCAN,
      replace=SCAN_TABLE_DELETE + '// RenameDescriptorAttribute replaces a descriptor attribute.\nfunc RenameDescriptorAttribute(i int, k string) {\n\tdescriptorAttributes[i] = k\n}\n\n'),
 dict(name='table-delete-keys-of-the-payload', file=P, expect='flagged(scan/removes-only-descriptor-fields)', find=SCAN,
      replace=_sub(SCAN_TABLE_DELETE, '\tfor _, attribute := range descriptorAttributes {\n', '\tfor attribute := range targetArtifactMap {\n')),
 # ---- shape: package-level array searched with slices.Index / slices.BinarySearch
 dict(name='benign-scan-table-array-slices-index', expect='silent', edits=[IMPORT_SLICES, (P, SCAN, SCAN_TABLE_ARRAY)],
      why='the array is written nowhere; slices.Index(...) < 0 is false only for an element of it'),
 dict(name='benign-scan-table-array-binary-search', expect='silent',
      edits=[IMPORT_SLICES, (P, SCAN, _sub(SCAN_TABLE_ARRAY, '\t\tif slices.Index(descriptorAttributes[:], k) < 0 {\n', '\t\tif _, found := slices.BinarySearch(descriptorAttributes[:], k); !found {\n'))],
      why='found means the element at the returned index equals the key'),
 dict(name='table-array-index-test-off-by-one', expect='flagged(scan/)',
      edits=[IMPORT_SLICES, (P, SCAN, _sub(SCAN_TABLE_ARRAY, 'slices.Index(descriptorAttributes[:], k) < 0 {', 'slices.Index(descriptorAttributes[:], k) < -1 {'))]),
 dict(name='table-array-element-assigned-elsewhere', expect='flagged(scan/)',
      edits=[IMPORT_SLICES, (P, SCAN, SCAN_TABLE_ARRAY + '// RenameDescriptorAttribute replaces a descriptor attribute.\nfunc RenameDescriptorAttribute(i int, k string) {\n\tdescriptorAttributes[i] = k\n}\n\n')]),
 dict(name='table-array-has-extra-key', expect='flagged(scan/removes-only-descriptor-fields)',
      edits=[IMPORT_SLICES, (P, SCAN, _sub(SCAN_TABLE_ARRAY, '"size", "urls"}', '"size", "subject", "urls"}'))]),
 # ---- tightening: a local list literal consulted by slices.Contains must not be written through
 dict(name='filter-scan-local-list-overwritten', expect='flagged(scan/)',
      edits=[IMPORT_SLICES, (P, SCAN, _sub(_sub(SCAN_FILTER_MIXED, 'var descriptorAttributes = []string{' + KNOWN8 + '}\n\n', ''),
                                         '\tvar unknownAttributes []string\n', '\tdescriptorAttributes := []string{' + KNOWN8 + '}\n\tvar unknownAttributes []string\n\tfor k := range payloadMap {\n\t\tdescriptorAttributes[0] = k\n\t}\n'))]),
]

# ---- shape: the table is handed to a helper (generic search function / method of a set type), once per level
SCAN_TABLE_HELPER = r'''var descriptorAttributes = []string{''' + KNOWN8 + r'''}

var payloadAttributes = []string{"targetArtifact"}

func inTable(table []string, name string) bool {
	for i := range table {
		if table[i] == name {
			return true
		}
	}
	return false
}

func areUnknownAttributesAdded(content []byte) []string {
	var payloadMap map[string]interface{}
	_ = json.Unmarshal(content, &payloadMap)
	descriptor, _ := payloadMap["targetArtifact"].(map[string]interface{})
	var unknownAttributes []string
	for k := range descriptor {
		if !inTable(descriptorAttributes, k) {
			unknownAttributes = append(unknownAttributes, k)
		}
	}
	for k := range payloadMap {
		if !inTable(payloadAttributes, k) {
			unknownAttributes = append(unknownAttributes, k)
		}
	}
	return unknownAttributes
}

'''
SCAN_TABLE_SETTYPE = r'''type attributeSet map[string]struct{}

func (s attributeSet) has(name string) bool {
	_, ok := s[name]
	return ok
}

var descriptorAttributes = attributeSet{"mediaType": {}, "digest": {}, "size": {}, "urls": {}, "annotations": {}, "data": {}, "platform": {}, "artifactType": {}}

func areUnknownAttributesAdded(content []byte) []string {
	payloadAttributes := attributeSet{"targetArtifact": {}}
	var payloadMap map[string]interface{}
	_ = json.Unmarshal(content, &payloadMap)
	descriptor, _ := payloadMap["targetArtifact"].(map[string]interface{})
	var unknownAttributes []string
	for k := range descriptor {
		if descriptorAttributes.has(k) {
			continue
		}
		unknownAttributes = append(unknownAttributes, k)
	}
	for k := range payloadMap {
		if payloadAttributes.has(k) {
			continue
		}
		unknownAttributes = append(unknownAttributes, k)
	}
	return unknownAttributes
}

'''
VARIANTS += [
 dict(name='benign-scan-table-handed-to-search-helper', file=P, expect='silent', find=SCAN, replace=SCAN_TABLE_HELPER,
      why='the helper only reads the table it is handed; per call the table is the caller\'s constant list'),
 dict(name='benign-scan-table-set-type-with-method', file=P, expect='silent', find=SCAN, replace=SCAN_TABLE_SETTYPE,
      why='the method is the ok half of a lookup in its receiver, which is a constant set at both call sites'),
 dict(name='table-helper-levels-swapped', file=P, expect='flagged(scan/removes-only-descriptor-fields)', find=SCAN,
      replace=_sub(_sub(SCAN_TABLE_HELPER, '!inTable(descriptorAttributes, k)', '!inTable(payloadAttributes, k)'), '\t\tif !inTable(payloadAttributes, k) {\n\t\t\tunknownAttributes = append(unknownAttributes, k)\n\t\t}\n\t}\n\treturn', '\t\tif !inTable(descriptorAttributes, k) {\n\t\t\tunknownAttributes = append(unknownAttributes, k)\n\t\t}\n\t}\n\treturn')),
 dict(name='table-helper-writes-the-table', file=P, expect='flagged(scan/)', find=SCAN,
      replace=_sub(SCAN_TABLE_HELPER, '\tfor i := range table {\n', '\tif len(table) > 8 {\n\t\ttable[8] = name\n\t}\n\tfor i := range table {\n')),
 dict(name='table-helper-handed-the-payload-keys', file=P, expect='flagged(scan/)', find=SCAN,
      replace=_sub(SCAN_TABLE_HELPER, '!inTable(descriptorAttributes, k)', '!inTable(getKeySet(payloadMap), k)')),
 dict(name='table-helper-compares-length-only', file=P, expect='flagged(scan/)', find=SCAN,
      replace=_sub(SCAN_TABLE_HELPER, '\t\tif table[i] == name {\n', '\t\tif len(table[i]) == len(name) {\n')),
 dict(name='table-set-type-can-add', file=P, expect='flagged(scan/)', find=SCAN,
      replace=SCAN_TABLE_SETTYPE + 'func (s attributeSet) add(name string) {\n\ts[name] = struct{}{}\n}\n\n// AllowDescriptorAttribute registers a further descriptor attribute.\nfunc AllowDescriptorAttribute(k string) {\n\tdescriptorAttributes.add(k)\n}\n\n'),
 dict(name='table-set-type-has-ignores-case', expect='flagged(scan/)',
      edits=[IMPORT_STRINGS, (P, SCAN, _sub(SCAN_TABLE_SETTYPE, '\t_, ok := s[name]\n', '\t_, ok := s[strings.ToLower(name)]\n'))]),
 dict(name='table-set-type-local-set-has-extra-key', file=P, expect='flagged(scan/removes-only-descriptor-fields)', find=SCAN,
      replace=_sub(SCAN_TABLE_SETTYPE, 'attributeSet{"targetArtifact": {}}', 'attributeSet{"targetArtifact": {}, "signingScheme": {}}')),
]

# ---- shape: the set is the result of a constructor function
SET_CONSTRUCTOR = 'func newAttributeSet(names ...string) map[string]struct{} {\n\tset := make(map[string]struct{}, len(names))\n\tfor _, name := range names {\n\t\tset[name] = struct{}{}\n\t}\n\treturn set\n}\n\n'
SCAN_TABLE_CONSTRUCTED = SET_CONSTRUCTOR + _sub(SCAN_TABLE_MAP, 'var knownDescriptorAttributes = map[string]struct{}{\n\t"mediaType":    {},\n\t"digest":       {},\n\t"size":         {},\n\t"urls":         {},\n\t"annotations":  {},\n\t"data":         {},\n\t"platform":     {},\n\t"artifactType": {},\n}\n',
                                        'var knownDescriptorAttributes = newAttributeSet(' + KNOWN8 + ')\n')
VARIANTS += [
 dict(name='benign-scan-table-set-built-by-constructor', file=P, expect='silent', find=SCAN, replace=SCAN_TABLE_CONSTRUCTED,
      why='the constructor inserts only elements of its variadic argument, a literal list of constants, and hands the map to nobody else'),
 dict(name='benign-scan-table-local-set-built-by-constructor', file=P, expect='silent', find=SCAN,
      replace=_sub(_sub(SCAN_TABLE_CONSTRUCTED, 'var knownDescriptorAttributes = newAttributeSet(' + KNOWN8 + ')\n', ''), '\tvar payloadMap map[string]interface{}\n', '\tknownDescriptorAttributes := newAttributeSet(' + KNOWN8 + ')\n\tvar payloadMap map[string]interface{}\n'),
      why='same constructor, called in the scan itself'),
 dict(name='constructed-set-has-extra-key', file=P, expect='flagged(scan/removes-only-descriptor-fields)', find=SCAN,
      replace=_sub(SCAN_TABLE_CONSTRUCTED, 'newAttributeSet(' + KNOWN8 + ')', 'newAttributeSet(' + KNOWN8 + ', "subject")')),
 dict(name='constructed-set-constructor-adds-lowercased', expect='flagged(scan/)',
      edits=[IMPORT_STRINGS, (P, SCAN, _sub(SCAN_TABLE_CONSTRUCTED, '\t\tset[name] = struct{}{}\n', '\t\tset[name] = struct{}{}\n\t\tset[strings.ToLower(name)] = struct{}{}\n'))]),
 dict(name='constructed-set-constructor-keeps-a-reference', file=P, expect='flagged(scan/)', find=SCAN,
      replace='var allAttributeSets []map[string]struct{}\n\n' + _sub(SCAN_TABLE_CONSTRUCTED, '\treturn set\n}\n', '\tallAttributeSets = append(allAttributeSets, set)\n\treturn set\n}\n')),
 dict(name='constructed-set-from-payload-keys', file=P, expect='flagged(scan/)', find=SCAN,
      replace=_sub(_sub(SCAN_TABLE_CONSTRUCTED, 'var knownDescriptorAttributes = newAttributeSet(' + KNOWN8 + ')\n', ''), '\tunknownAttributes := make(', '\tknownDescriptorAttributes := newAttributeSet(getKeySet(payloadMap)...)\n\tunknownAttributes := make(')),
]

# ---- shape: the filtering loop of a level sits in a helper of the scan (generic: handed the map and the table; or one helper per level)
SCAN_COLLECT_HELPER = r'''var knownDescriptorAttributes = map[string]struct{}{"mediaType": {}, "digest": {}, "size": {}, "urls": {}, "annotations": {}, "data": {}, "platform": {}, "artifactType": {}}

var knownPayloadAttributes = map[string]struct{}{"targetArtifact": {}}

func unknownKeys(object map[string]interface{}, known map[string]struct{}) []string {
	var unknown []string
	for k := range object {
		if _, ok := known[k]; !ok {
			unknown = append(unknown, k)
		}
	}
	return unknown
}

func areUnknownAttributesAdded(content []byte) []string {
	var payloadMap map[string]interface{}
	_ = json.Unmarshal(content, &payloadMap)
	descriptor, _ := payloadMap["targetArtifact"].(map[string]interface{})
	return append(unknownKeys(descriptor, knownDescriptorAttributes), unknownKeys(payloadMap, knownPayloadAttributes)...)
}

'''
# descriptor level in its own helper (guard clause for the empty map, switch), payload level by a loop of the scan that
# continues the helper's result
SCAN_COLLECT_MIXED = r'''func unknownDescriptorKeys(descriptor map[string]interface{}) []string {
	if len(descriptor) == 0 {
		return nil
	}
	unknown := make([]string, 0, len(descriptor))
	for k := range descriptor {
		switch k {
		case "mediaType", "digest", "size", "urls", "annotations", "data", "platform", "artifactType":
			continue
		}
		unknown = append(unknown, k)
	}
	return unknown
}

func areUnknownAttributesAdded(content []byte) []string {
	var payloadMap map[string]interface{}
	_ = json.Unmarshal(content, &payloadMap)
	descriptor, _ := payloadMap["targetArtifact"].(map[string]interface{})
	unknownAttributes := unknownDescriptorKeys(descriptor)
	for k := range payloadMap {
		if k != "targetArtifact" {
			unknownAttributes = append(unknownAttributes, k)
		}
	}
	return unknownAttributes
}

'''
VARIANTS += [
 dict(name='benign-scan-collector-helper-takes-map-and-table', file=P, expect='silent', find=SCAN, replace=SCAN_COLLECT_HELPER,
      why='per call the helper reports every key of its map argument that is not in the constant set it is handed'),
 dict(name='benign-scan-collector-helper-per-level-with-empty-guard', file=P, expect='silent', find=SCAN, replace=SCAN_COLLECT_MIXED,
      why='the early return is taken only for a map without keys; the scan appends the payload level to the helper\'s result'),
 dict(name='collector-helper-tables-swapped', file=P, expect='flagged(scan/removes-only-descriptor-fields)', find=SCAN,
      replace=_sub(SCAN_COLLECT_HELPER, 'append(unknownKeys(descriptor, knownDescriptorAttributes), unknownKeys(payloadMap, knownPayloadAttributes)...)', 'append(unknownKeys(descriptor, knownPayloadAttributes), unknownKeys(payloadMap, knownDescriptorAttributes)...)')),
 dict(name='collector-helper-same-level-twice', file=P, expect='flagged(scan/reports-both-levels)', find=SCAN,
      replace=_sub(SCAN_COLLECT_HELPER, 'unknownKeys(payloadMap, knownPayloadAttributes)...)', 'unknownKeys(descriptor, knownDescriptorAttributes)...)')),
 dict(name='collector-helper-table-is-the-payload', file=P, expect='flagged(scan/)', find=SCAN,
      replace='func setOf(names []string) map[string]struct{} {\n\tset := map[string]struct{}{}\n\tfor _, name := range names {\n\t\tset[name] = struct{}{}\n\t}\n\treturn set\n}\n\n' + _sub(SCAN_COLLECT_HELPER, 'unknownKeys(descriptor, knownDescriptorAttributes)', 'unknownKeys(descriptor, setOf(getKeySet(payloadMap)))')),
 dict(name='collector-helper-caps-the-report', file=P, expect='flagged(scan/)', find=SCAN,
      replace=_sub(SCAN_COLLECT_HELPER, '\treturn unknown\n', '\treturn unknown[:min(len(unknown), 0)]\n')),
 dict(name='collector-helper-guard-on-small-maps', file=P, expect='flagged(scan/)', find=SCAN,
      replace=_sub(SCAN_COLLECT_MIXED, '\tif len(descriptor) == 0 {\n', '\tif len(descriptor) <= 8 {\n')),
 dict(name='collector-helper-result-dropped-by-the-scan', file=P, expect='flagged(scan/reports-both-levels)', find=SCAN,
      replace=_sub(SCAN_COLLECT_MIXED, '\tfor k := range payloadMap {\n', '\tunknownAttributes = unknownAttributes[:0]\n\tfor k := range payloadMap {\n')),
 # ---- tightening: both levels are decided on the maps handed to the key-set helper, not on the printed form of the return
 dict(name='scan-descriptor-level-reported-twice', file=P, expect='flagged(scan/reports-both-levels)',
      find='\tunknownAttributes := append(getKeySet(descriptor), getKeySet(targetArtifactMap)...)', replace='\tunknownAttributes := append(getKeySet(descriptor), getKeySet(descriptor)...)'),
]

# ---- further members of the table class: set filled by an init function, comparison of the looked-up flag with a boolean
# constant. (A sorted list searched with sort.SearchStrings is accepted by the scan rules, but the index inventory shared
# with C12 does not tie the returned index to the length of a package-level slice: no variant.)
SCAN_TABLE_INIT_FILLED = _sub(SCAN_TABLE_MAP, 'var knownDescriptorAttributes = map[string]struct{}{\n\t"mediaType":    {},\n\t"digest":       {},\n\t"size":         {},\n\t"urls":         {},\n\t"annotations":  {},\n\t"data":         {},\n\t"platform":     {},\n\t"artifactType": {},\n}\n',
                              'var knownDescriptorAttributes = map[string]struct{}{}\n\nfunc init() {\n\tfor _, attribute := range [...]string{' + KNOWN8 + '} {\n\t\tknownDescriptorAttributes[attribute] = struct{}{}\n\t}\n}\n')
VARIANTS += [
 dict(name='benign-scan-table-set-filled-by-init', file=P, expect='silent', find=SCAN, replace=SCAN_TABLE_INIT_FILLED,
      why='the only insertions are made by an init function, under elements of a literal array of constants'),
 dict(name='benign-scan-table-bool-set-compared-with-false', file=P, expect='silent', find=SCAN,
      replace=_sub(SCAN_TABLE_BOOLMAP, '\t\tif expectedInDescriptor[name] {\n\t\t\tcontinue\n\t\t}\n\t\textra = append(extra, name)\n', '\t\tif expectedInDescriptor[name] == false {\n\t\t\textra = append(extra, name)\n\t\t}\n'),
      why='table[key] == false is the negation of table[key]'),
 dict(name='table-set-filled-by-exported-function', file=P, expect='flagged(scan/)', find=SCAN,
      replace=_sub(SCAN_TABLE_INIT_FILLED, 'func init() {\n', '// InitDescriptorAttributes fills the table.\nfunc InitDescriptorAttributes() {\n')),
 dict(name='table-set-init-adds-extra-key', file=P, expect='flagged(scan/removes-only-descriptor-fields)', find=SCAN,
      replace=_sub(SCAN_TABLE_INIT_FILLED, '{' + KNOWN8 + '} {\n', '{' + KNOWN8 + ', "subject"} {\n')),
 dict(name='table-bool-set-compared-with-true-by-mistake', file=P, expect='flagged(scan/)', find=SCAN,
      replace=_sub(SCAN_TABLE_BOOLMAP, '\t\tif expectedInDescriptor[name] {\n\t\t\tcontinue\n\t\t}\n\t\textra = append(extra, name)\n', '\t\tif expectedInDescriptor[name] == true {\n\t\t\textra = append(extra, name)\n\t\t}\n')),
]

# ===== the raw path recognised by ROLE (a call of the generic signer on an object holding the plugin-backed primitive signer),
# wherever it is written: constructor helper + call in Sign/SignBlob, fully inline, primitive signer built by its own constructor
RAW_FN = r'''func (s *PluginSigner) generateSignature(ctx context.Context, desc ocispec.Descriptor, opts notation.SignerSignOptions, ks signature.KeySpec, metadata *plugin.GetMetadataResponse, pluginConfig map[string]string) ([]byte, *signature.SignerInfo, error) {
	logger := log.GetLogger(ctx)
	logger.Debug("Generating signature by plugin")
	genericSigner := GenericSigner{
		signer: &pluginPrimitiveSigner{
			ctx:          ctx,
			plugin:       s.plugin,
			keyID:        s.keyID,
			pluginConfig: pluginConfig,
			keySpec:      ks,
		},
	}
	opts.SigningAgent = fmt.Sprintf("%s %s/%s", signingAgent, metadata.Name, metadata.Version)
	return genericSigner.Sign(ctx, desc, opts)
}
'''
RAW_CTOR = r'''func (s *PluginSigner) genericSigner(ctx context.Context, ks signature.KeySpec, pluginConfig map[string]string) *GenericSigner {
	return &GenericSigner{
		signer: &pluginPrimitiveSigner{
			ctx:          ctx,
			plugin:       s.plugin,
			keyID:        s.keyID,
			pluginConfig: pluginConfig,
			keySpec:      ks,
		},
	}
}

func withPluginAgent(opts notation.SignerSignOptions, metadata *plugin.GetMetadataResponse) notation.SignerSignOptions {
	opts.SigningAgent = fmt.Sprintf("%s %s/%s", signingAgent, metadata.Name, metadata.Version)
	return opts
}
'''
SIGN_RAW_CALL = '\t\tsig, signerInfo, err := s.generateSignature(ctx, desc, opts, ks, metadata, mergedConfig)\n'
SIGN_RAW_CTOR_CALL = '\t\tsig, signerInfo, err := s.genericSigner(ctx, ks, mergedConfig).Sign(ctx, desc, withPluginAgent(opts, metadata))\n'
BLOB_TAIL = r'''	// get descriptor to sign
	desc, err := getDescriptor(ks, descGenFunc)
	if err != nil {
		return nil, nil, err
	}
	logger.Debugf("Using plugin %v with capabilities %v to sign blob using descriptor %+v", metadata.Name, metadata.Capabilities, desc)
	if metadata.HasCapability(plugin.CapabilitySignatureGenerator) {
		return s.generateSignature(ctx, desc, opts, ks, metadata, mergedConfig)
	} else if metadata.HasCapability(plugin.CapabilityEnvelopeGenerator) {
		return s.generateSignatureEnvelope(ctx, desc, opts)
	}
'''
BLOB_TAIL_CTOR = r'''	if metadata.HasCapability(plugin.CapabilitySignatureGenerator) {
		return s.genericSigner(ctx, ks, mergedConfig).SignBlob(ctx, descGenFunc, withPluginAgent(opts, metadata))
	} else if metadata.HasCapability(plugin.CapabilityEnvelopeGenerator) {
		desc, err := getDescriptor(ks, descGenFunc)
		if err != nil {
			return nil, nil, err
		}
		return s.generateSignatureEnvelope(ctx, desc, opts)
	}
'''
def _ctor(sign=SIGN_RAW_CTOR_CALL, blob=BLOB_TAIL_CTOR, ctor=RAW_CTOR):
    return [(P, RAW_FN, ctor), (P, SIGN_RAW_CALL, sign), (P, BLOB_TAIL, blob)]

# fully inline: no helper at all, the object is built and used in Sign / SignBlob
SIGN_RAW_INLINE = r'''		raw := &GenericSigner{signer: &pluginPrimitiveSigner{ctx: ctx, plugin: s.plugin, keyID: s.keyID, pluginConfig: mergedConfig, keySpec: ks}}
		opts.SigningAgent = fmt.Sprintf("%s %s/%s", signingAgent, metadata.Name, metadata.Version)
		sig, signerInfo, err := raw.Sign(ctx, desc, opts)
'''
BLOB_RAW_INLINE = r'''		raw := GenericSigner{signer: &pluginPrimitiveSigner{ctx: ctx, plugin: s.plugin, keyID: s.keyID, pluginConfig: mergedConfig, keySpec: ks}}
		opts.SigningAgent = fmt.Sprintf("%s %s/%s", signingAgent, metadata.Name, metadata.Version)
		return raw.Sign(ctx, desc, opts)
'''
def _inline(sign=SIGN_RAW_INLINE, blob=BLOB_RAW_INLINE):
    return [(P, RAW_FN, ''), (P, SIGN_RAW_CALL, sign), (P, '\t\treturn s.generateSignature(ctx, desc, opts, ks, metadata, mergedConfig)\n', blob)]

# the primitive signer has its own constructor below the raw-path helper (key spec handed down two levels)
RAW_FN_PRIM_CTOR = _sub(RAW_FN, '''	genericSigner := GenericSigner{
		signer: &pluginPrimitiveSigner{
			ctx:          ctx,
			plugin:       s.plugin,
			keyID:        s.keyID,
			pluginConfig: pluginConfig,
			keySpec:      ks,
		},
	}
''', '''	genericSigner := GenericSigner{signer: s.primitiveSigner(ctx, ks, pluginConfig)}
''') + r'''
func (s *PluginSigner) primitiveSigner(ctx context.Context, described signature.KeySpec, config map[string]string) *pluginPrimitiveSigner {
	return &pluginPrimitiveSigner{
		ctx:          ctx,
		plugin:       s.plugin,
		keyID:        s.keyID,
		pluginConfig: config,
		keySpec:      described,
	}
}
'''
# the raw-path helper keeps the generic signer in a local and tests the error itself
RAW_FN_ERR_LOCAL = _sub(RAW_FN, '\treturn genericSigner.Sign(ctx, desc, opts)\n',
    '\tsig, signerInfo, err := genericSigner.Sign(ctx, desc, opts)\n\tif err != nil {\n\t\treturn nil, nil, fmt.Errorf("raw signature: %w", err)\n\t}\n\treturn sig, signerInfo, nil\n')

VARIANTS += [
 dict(name='benign-raw-generic-signer-constructor', expect='silent', edits=_ctor(),
      why='Sign/SignBlob call GenericSigner.Sign/SignBlob on the object a constructor helper built around the plugin-backed primitive signer'),
 dict(name='benign-raw-constructor-result-in-local', expect='silent',
      edits=_ctor(sign='\t\traw := s.genericSigner(ctx, ks, mergedConfig)\n\t\topts = withPluginAgent(opts, metadata)\n\t\tsig, signerInfo, err := raw.Sign(ctx, desc, opts)\n'),
      why='the constructed object is held in a local before the call'),
 dict(name='benign-raw-path-inline', expect='silent', edits=_inline(),
      why='no helper: the generic signer is built around the plugin-backed primitive signer and called in Sign / SignBlob themselves'),
 dict(name='benign-raw-primitive-signer-constructor', file=P, expect='silent', find=RAW_FN, replace=RAW_FN_PRIM_CTOR,
      why='the primitive signer is built by its own constructor; the key spec is handed down two levels from the checked lookup'),
 dict(name='benign-raw-helper-error-local', file=P, expect='silent', find=RAW_FN, replace=RAW_FN_ERR_LOCAL,
      why='the helper tests the error of the generic signer itself and returns the very results of that call'),
 # the new shapes with the property broken
 dict(name='ctor-raw-call-under-wrong-capability', expect='flagged(dispatch/SignBlob)',
      edits=_ctor(blob=_sub(BLOB_TAIL_CTOR, '\tif metadata.HasCapability(plugin.CapabilitySignatureGenerator) {\n', '\tif !metadata.HasCapability(plugin.CapabilityEnvelopeGenerator) {\n'))),
 dict(name='ctor-raw-call-error-dropped', expect='flagged(dispatch/Sign)',
      edits=_ctor(sign='\t\tsig, signerInfo, _ := s.genericSigner(ctx, ks, mergedConfig).Sign(ctx, desc, withPluginAgent(opts, metadata))\n\t\tif sig == nil {\n\t\t\terr = fmt.Errorf("no signature")\n\t\t}\n')),
 dict(name='ctor-falls-back-to-local-key', expect='flagged(dispatch/Sign)',
      edits=_ctor(ctor=_sub(RAW_CTOR, '\treturn &GenericSigner{\n', '\tif local, err := NewGenericSignerFromFiles(pluginConfig["key"], pluginConfig["certs"]); err == nil {\n\t\treturn local\n\t}\n\treturn &GenericSigner{\n'))),
 dict(name='ctor-key-id-of-config', expect='flagged(raw/primitive-signer)',
      edits=_ctor(ctor=_sub(RAW_CTOR, '\t\t\tkeyID:        s.keyID,\n', '\t\t\tkeyID:        pluginConfig["keyID"],\n'))),
 dict(name='ctor-primitive-signer-swapped-after-construction', expect='flagged(dispatch/Sign)',
      edits=_ctor(sign='\t\traw := s.genericSigner(ctx, ks, mergedConfig)\n\t\tif other, ok := opts.Timestamper.(signature.Signer); ok {\n\t\t\traw.signer = other\n\t\t}\n\t\tsig, signerInfo, err := raw.Sign(ctx, desc, withPluginAgent(opts, metadata))\n')),
 dict(name='ctor-keyspec-error-ignored', expect='flagged(raw/primitive-signer/key-spec-origin)',
      edits=_ctor() + [(P, '\tks, err := s.getKeySpec(ctx, mergedConfig)\n\tif err != nil {\n\t\treturn nil, nil, err\n\t}\n\n', '\tks, _ := s.getKeySpec(ctx, mergedConfig)\n\n')]),
 dict(name='inline-keyspec-not-the-described-one', expect='flagged(raw/primitive-signer)',
      edits=_inline(sign=_sub(SIGN_RAW_INLINE, 'keySpec: ks}}', 'keySpec: signature.KeySpec{Type: ks.Type, Size: 2048}}}'))),
 dict(name='inline-keyspec-error-ignored', expect='flagged(raw/primitive-signer/key-spec-origin)',
      edits=_inline() + [(P, '\tks, err := s.getKeySpec(ctx, mergedConfig)\n\tif err != nil {\n\t\treturn nil, nil, err\n\t}\n\n', '\tks, _ := s.getKeySpec(ctx, mergedConfig)\n\n')]),
 dict(name='inline-raw-call-without-capability', expect='flagged(dispatch/SignBlob)',
      edits=_inline() + [(P, '\tlogger.Debugf("Using plugin %v with capabilities %v to sign blob using descriptor %+v", metadata.Name, metadata.Capabilities, desc)\n\tif metadata.HasCapability(plugin.CapabilitySignatureGenerator) {\n',
                          '\tlogger.Debugf("Using plugin %v with capabilities %v to sign blob using descriptor %+v", metadata.Name, metadata.Capabilities, desc)\n\tif len(metadata.Capabilities) > 0 {\n')]),
 dict(name='primitive-constructor-keyspec-from-elsewhere', file=P, expect='flagged(raw/primitive-signer/key-spec-origin)', find=RAW_FN,
      replace=_sub(RAW_FN_PRIM_CTOR, 's.primitiveSigner(ctx, ks, pluginConfig)', 's.primitiveSigner(ctx, signature.KeySpec{Type: signature.KeyTypeEC, Size: 256}, pluginConfig)')),
 dict(name='raw-helper-returns-other-signer-info', file=P, expect='flagged(dispatch/Sign)', find=RAW_FN,
      replace=_sub(RAW_FN_ERR_LOCAL, '\treturn sig, signerInfo, nil\n', '\tsignerInfo = &signature.SignerInfo{SignedAttributes: signerInfo.SignedAttributes}\n\treturn sig, signerInfo, nil\n')),
 dict(name='raw-helper-error-of-generic-signer-swallowed', file=P, expect='flagged(dispatch/Sign)', find=RAW_FN,
      replace=_sub(RAW_FN_ERR_LOCAL, '\tif err != nil {\n\t\treturn nil, nil, fmt.Errorf("raw signature: %w", err)\n\t}\n', '\tif err != nil {\n\t\tlogger.Debugf("raw signature: %v", err)\n\t}\n')),
]

# ---- further members of the class: constructor returning the object BY VALUE; raw-path helper written as a plain function
RAW_CTOR_BY_VALUE = _sub(RAW_CTOR, 'pluginConfig map[string]string) *GenericSigner {\n\treturn &GenericSigner{\n', 'pluginConfig map[string]string) GenericSigner {\n\treturn GenericSigner{\n')
SIGN_BY_VALUE = '\t\traw := s.genericSigner(ctx, ks, mergedConfig)\n\t\tsig, signerInfo, err := raw.Sign(ctx, desc, withPluginAgent(opts, metadata))\n'
BLOB_BY_VALUE = _sub(BLOB_TAIL_CTOR, '\t\treturn s.genericSigner(ctx, ks, mergedConfig).SignBlob(ctx, descGenFunc, withPluginAgent(opts, metadata))\n',
                     '\t\traw := s.genericSigner(ctx, ks, mergedConfig)\n\t\treturn raw.SignBlob(ctx, descGenFunc, withPluginAgent(opts, metadata))\n')
RAW_PLAIN_FN = _sub(RAW_FN, 'func (s *PluginSigner) generateSignature(ctx context.Context, desc', 'func signWithPluginKey(ctx context.Context, s *PluginSigner, desc')
PLAIN_EDITS = [(P, RAW_FN, RAW_PLAIN_FN),
               (P, SIGN_RAW_CALL, '\t\tsig, signerInfo, err := signWithPluginKey(ctx, s, desc, opts, ks, metadata, mergedConfig)\n'),
               (P, '\t\treturn s.generateSignature(ctx, desc, opts, ks, metadata, mergedConfig)\n', '\t\treturn signWithPluginKey(ctx, s, desc, opts, ks, metadata, mergedConfig)\n')]
VARIANTS += [
 dict(name='benign-raw-constructor-by-value', expect='silent', edits=_ctor(sign=SIGN_BY_VALUE, blob=BLOB_BY_VALUE, ctor=RAW_CTOR_BY_VALUE),
      why='the constructor returns the generic signer by value; the local copy has the field values of the object built'),
 dict(name='benign-raw-helper-plain-function', expect='silent', edits=PLAIN_EDITS,
      why='the raw-path helper is a plain function that is handed the plugin signer after the context'),
 dict(name='by-value-constructor-falls-back-to-local-key', expect='flagged(dispatch/Sign)',
      edits=_ctor(sign=SIGN_BY_VALUE, blob=BLOB_BY_VALUE, ctor=_sub(RAW_CTOR_BY_VALUE, '\treturn GenericSigner{\n', '\tif local, err := NewGenericSignerFromFiles(pluginConfig["key"], pluginConfig["certs"]); err == nil {\n\t\treturn *local\n\t}\n\treturn GenericSigner{\n'))),
 dict(name='plain-function-key-id-of-config', expect='flagged(raw/primitive-signer)',
      edits=[(P, RAW_FN, _sub(RAW_PLAIN_FN, '\t\t\tkeyID:        s.keyID,\n', '\t\t\tkeyID:        pluginConfig["keyID"],\n'))] + PLAIN_EDITS[1:]),
 dict(name='plain-function-signs-with-other-generic-signer', expect='flagged(dispatch/Sign)',
      edits=[(P, RAW_FN, _sub(RAW_PLAIN_FN, '\treturn genericSigner.Sign(ctx, desc, opts)\n', '\tif local, err := NewGenericSignerFromFiles(pluginConfig["key"], pluginConfig["certs"]); err == nil {\n\t\treturn local.Sign(ctx, desc, opts)\n\t}\n\treturn genericSigner.Sign(ctx, desc, opts)\n'))] + PLAIN_EDITS[1:]),
]
