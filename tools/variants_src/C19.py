R = 'registry/repository.go'
VARIANTS = [
 dict(name='blob-cap-dropped', file=R, expect='flagged(cap-before-fetch)',
      find='\tif sigBlobDesc.Size > maxBlobSizeLimit {\n\t\treturn nil, ocispec.Descriptor{}, fmt.Errorf("signature blob too large: %d bytes", sigBlobDesc.Size)\n\t}\n', replace=''),
 dict(name='blob-cap-on-manifest-desc', file=R, expect='flagged(cap-before-fetch)',
      find='\tif sigBlobDesc.Size > maxBlobSizeLimit {', replace='\tif desc.Size > maxBlobSizeLimit {'),
 dict(name='manifest-cap-after-fetch', file=R, expect='flagged(cap-before-fetch)',
      edits=[(R, '\tif sigManifestDesc.Size > maxManifestSizeLimit {\n\t\treturn ocispec.Descriptor{}, fmt.Errorf("signature manifest too large: %d bytes", sigManifestDesc.Size)\n\t}\n', ''),
             (R, '\t// get the signature blob descriptor from signature manifest\n', '\tif sigManifestDesc.Size > maxManifestSizeLimit {\n\t\treturn ocispec.Descriptor{}, fmt.Errorf("signature manifest too large: %d bytes", sigManifestDesc.Size)\n\t}\n\t// get the signature blob descriptor from signature manifest\n')]),
 dict(name='referrer-cap-image-branch-dropped', file=R, expect='flagged(cap)',
      find='\t\tcase ocispec.MediaTypeImageManifest:\n\t\t\tif node.Size > maxManifestSizeLimit {\n\t\t\t\treturn nil, fmt.Errorf("referrer node too large: %d bytes", node.Size)\n\t\t\t}\n', replace='\t\tcase ocispec.MediaTypeImageManifest:\n'),
 dict(name='cap-negative-disables', file=R, expect='flagged(cap-before-fetch)',
      find='\tif sigBlobDesc.Size > maxBlobSizeLimit {', replace='\tif maxBlobSizeLimit > 0 && sigBlobDesc.Size > maxBlobSizeLimit*1024 {'),
 dict(name='exactly-one-relaxed', file=R, expect='flagged(lookup/exactly-one-blob)',
      find='\tif len(signatureBlobs) != 1 {', replace='\tif len(signatureBlobs) < 1 {'),
 dict(name='last-blob-returned', file=R, expect='flagged(lookup/exactly-one-blob)',
      edits=[(R, '\tif len(signatureBlobs) != 1 {', '\tif len(signatureBlobs) == 0 {'), (R, '\treturn signatureBlobs[0], nil', '\treturn signatureBlobs[len(signatureBlobs)-1], nil')]),
 dict(name='decode-swapped-types', file=R, expect='flagged(lookup/decode-matches-media-type)',
      find='\tif sigManifestDesc.MediaType == ocispec.MediaTypeImageManifest {\n\t\tvar sigManifest ocispec.Manifest', replace='\tif sigManifestDesc.MediaType != ocispec.MediaTypeImageManifest {\n\t\tvar sigManifest ocispec.Manifest'),
 dict(name='lookup-any-media-type', file=R, expect='flagged(lookup/media-type)',
      find='\tif sigManifestDesc.MediaType != artifactspec.MediaTypeArtifactManifest && sigManifestDesc.MediaType != ocispec.MediaTypeImageManifest {', replace='\tif sigManifestDesc.MediaType == "" {'),
 dict(name='lookup-decode-error-ignored', file=R, expect='flagged(lookup/decode-error)',
      find='\t\tvar sigManifest artifactspec.Artifact\n\t\tif err := json.Unmarshal(manifestJSON, &sigManifest); err != nil {\n\t\t\treturn ocispec.Descriptor{}, err\n\t\t}\n', replace='\t\tvar sigManifest artifactspec.Artifact\n\t\t_ = json.Unmarshal(manifestJSON, &sigManifest)\n'),
 dict(name='fetch-returns-manifest-desc', file=R, expect='flagged(fetch/returns-fetched)',
      find='\treturn sigBlob, sigBlobDesc, nil', replace='\treturn sigBlob, desc, nil'),
 dict(name='subject-digest-only', file=R, expect='flagged(list/image-manifest/subject-equality)',
      find='\t\t\tif image.Subject == nil || !content.Equal(*image.Subject, desc) {', replace='\t\t\tif image.Subject == nil || image.Subject.Digest != desc.Digest {'),
 dict(name='subject-nil-accepted', file=R, expect='flagged(list/artifact-manifest/subject-equality)',
      find='\t\t\tif artifact.Subject == nil || !content.Equal(*artifact.Subject, desc) {', replace='\t\t\tif artifact.Subject != nil && !content.Equal(*artifact.Subject, desc) {'),
 dict(name='artifact-type-filter-dropped', file=R, expect='flagged(artifact-type)',
      find='\t\tif node.ArtifactType == ArtifactTypeNotation {\n\t\t\tresults = append(results, node)\n\t\t}\n', replace='\t\tresults = append(results, node)\n'),
 dict(name='artifact-type-from-node', file=R, expect='flagged(list/image-manifest/artifact-type-origin)',
      find='\t\t\tnode.ArtifactType = image.Config.MediaType\n', replace='\t\t\tif node.ArtifactType == "" {\n\t\t\t\tnode.ArtifactType = image.Config.MediaType\n\t\t\t}\n'),
 dict(name='artifact-type-from-image-field', file=R, expect='flagged(list/image-manifest/artifact-type-origin)',
      find='\t\t\tnode.ArtifactType = image.Config.MediaType\n', replace='\t\t\tnode.ArtifactType = image.ArtifactType\n',
      why='push stores the type as config media type with an empty artifactType; reading only the artifactType field loses signatures pushed by this library (reader/writer disagreement)'),
 dict(name='decode-targets-hoisted', file=R, expect='flagged(decode-target-fresh)',
      edits=[(R, '\tvar results []ocispec.Descriptor\n\tpredecessors, err', '\tvar results []ocispec.Descriptor\n\tvar image ocispec.Manifest\n\tpredecessors, err'),
             (R, '\t\t\tvar image ocispec.Manifest\n', '')]),
 dict(name='default-branch-falls-through', file=R, expect='flagged(list/only-manifest-media-types)',
      find='\t\tdefault:\n\t\t\tcontinue\n\t\t}\n', replace='\t\tdefault:\n\t\t}\n'),
 dict(name='list-error-returns-partial', file=R, expect='flagged(list/result)',
      find='\t\t\tvar image ocispec.Manifest\n\t\t\tif err := json.Unmarshal(fetched, &image); err != nil {\n\t\t\t\treturn nil, err\n', replace='\t\t\tvar image ocispec.Manifest\n\t\t\tif err := json.Unmarshal(fetched, &image); err != nil {\n\t\t\t\treturn results, err\n'),
 dict(name='referrers-api-any-type', file=R, expect='flagged(list/entry)',
      find='\t\treturn repo.Referrers(ctx, desc, ArtifactTypeNotation, fn)', replace='\t\treturn repo.Referrers(ctx, desc, "", fn)'),
 dict(name='list-error-swallowed', file=R, expect='flagged(list/entry)',
      find='\tif err != nil {\n\t\treturn fmt.Errorf("failed to get referrers during ListSignatures due to %w", err)\n\t}\n', replace='\t_ = err\n'),
 dict(name='push-annotations-dropped', file=R, expect='flagged(push/options/annotations)',
      find='\t\tManifestAnnotations: annotations,\n', replace=''),
 dict(name='push-subject-of-blob', file=R, expect='flagged(push/options/subject)',
      find='\t\tSubject:             &subject,\n', replace='\t\tSubject:             &blobDesc,\n'),
 dict(name='push-layer-is-config', file=R, expect='flagged(push/options/single-layer)',
      find='\t\tLayers:              []ocispec.Descriptor{blobDesc},\n', replace='\t\tLayers:              []ocispec.Descriptor{blobDesc, configDesc},\n'),
 dict(name='push-config-type-changed', file=R, expect='flagged(push/options/config)',
      find='\tnotationEmptyConfigDesc = ocispec.Descriptor{\n\t\tMediaType: ArtifactTypeNotation,', replace='\tnotationEmptyConfigDesc = ocispec.Descriptor{\n\t\tMediaType: ocispec.MediaTypeEmptyJSON,'),
 dict(name='push-media-type-fixed', file=R, expect='flagged(push/blob)',
      find='\tblobDesc, err = oras.PushBytes(ctx, pusher, mediaType, blob)', replace='\tblobDesc, err = oras.PushBytes(ctx, pusher, "application/jose+json", blob)'),
 dict(name='push-pack-version-1_0', file=R, expect='flagged(push/pack-version)',
      find='oras.PackManifestVersion1_1, "", opts)', replace='oras.PackManifestVersion1_0, "", opts)'),
 dict(name='push-config-error-ignored', file=R, expect='flagged(push/options/config)',
      find='\tconfigDesc, err := pushNotationManifestConfig(ctx, c.GraphTarget)\n\tif err != nil {\n\t\treturn ocispec.Descriptor{}, fmt.Errorf("failed to push notation manifest config: %w", err)\n\t}\n', replace='\tconfigDesc, _ := pushNotationManifestConfig(ctx, c.GraphTarget)\n'),
 # benign
 dict(name='benign-cap-helper', file=R, expect='silent',
      edits=[(R, '\tif sigManifestDesc.Size > maxManifestSizeLimit {\n\t\treturn ocispec.Descriptor{}, fmt.Errorf("signature manifest too large: %d bytes", sigManifestDesc.Size)\n\t}\n', '\tif err := tooLarge(sigManifestDesc, maxManifestSizeLimit); err != nil {\n\t\treturn ocispec.Descriptor{}, err\n\t}\n'),
             (R, '// uploadSignatureManifest uploads', 'func tooLarge(d ocispec.Descriptor, limit int64) error {\n\tif d.Size > limit {\n\t\treturn fmt.Errorf("too large: %d bytes", d.Size)\n\t}\n\treturn nil\n}\n\n// uploadSignatureManifest uploads')]),
 dict(name='benign-error-text', file=R, expect='silent',
      find='"signature blob too large: %d bytes"', replace='"signature blob exceeds the limit: %d bytes"'),
 dict(name='benign-equal-args-swapped', file=R, expect='silent',
      find='!content.Equal(*image.Subject, desc)', replace='!content.Equal(desc, *image.Subject)'),
 dict(name='benign-explicit-artifact-type', file=R, expect='silent',
      find='oras.PackManifestVersion1_1, "", opts)', replace='oras.PackManifestVersion1_1, ArtifactTypeNotation, opts)'),
]


# ---------------------------------------------------------------------------------------------------------------
# Shapes the generalised rule set accepts (behaviour-preserving refactorings benign/out-C19/1..4), each with the
# same shape *broken*. The shape texts are whole blocks of registry/repository.go; sub() edits a block exactly once.
# ---------------------------------------------------------------------------------------------------------------

LOOP0 = r'''	for _, node := range predecessors {
		switch node.MediaType {
		case artifactspec.MediaTypeArtifactManifest:
			if node.Size > maxManifestSizeLimit {
				return nil, fmt.Errorf("referrer node too large: %d bytes", node.Size)
			}
			fetched, err := content.FetchAll(ctx, target, node)
			if err != nil {
				return nil, err
			}
			var artifact artifactspec.Artifact
			if err := json.Unmarshal(fetched, &artifact); err != nil {
				return nil, err
			}
			if artifact.Subject == nil || !content.Equal(*artifact.Subject, desc) {
				continue
			}
			node.ArtifactType = artifact.ArtifactType
			node.Annotations = artifact.Annotations
		case ocispec.MediaTypeImageManifest:
			if node.Size > maxManifestSizeLimit {
				return nil, fmt.Errorf("referrer node too large: %d bytes", node.Size)
			}
			fetched, err := content.FetchAll(ctx, target, node)
			if err != nil {
				return nil, err
			}
			var image ocispec.Manifest
			if err := json.Unmarshal(fetched, &image); err != nil {
				return nil, err
			}
			if image.Subject == nil || !content.Equal(*image.Subject, desc) {
				continue
			}
			node.ArtifactType = image.Config.MediaType
			node.Annotations = image.Annotations
		default:
			continue
		}
		// only keep nodes of "application/vnd.cncf.notary.signature"
		if node.ArtifactType == ArtifactTypeNotation {
			results = append(results, node)
		}
	}
'''

LOOP_GUARD = r'''	for i := 0; i < len(predecessors); i++ {
		node := predecessors[i]
		isArtifactManifest := node.MediaType == artifactspec.MediaTypeArtifactManifest
		if !isArtifactManifest && node.MediaType != ocispec.MediaTypeImageManifest {
			// neither an OCI artifact manifest nor an OCI image manifest
			continue
		}
		if node.Size > maxManifestSizeLimit {
			return nil, fmt.Errorf("referrer node too large: %d bytes", node.Size)
		}
		fetched, err := content.FetchAll(ctx, target, node)
		if err != nil {
			return nil, err
		}
		if isArtifactManifest {
			var artifact artifactspec.Artifact
			if err := json.Unmarshal(fetched, &artifact); err != nil {
				return nil, err
			}
			if artifact.Subject == nil {
				continue
			}
			if !content.Equal(*artifact.Subject, desc) {
				continue
			}
			node.ArtifactType = artifact.ArtifactType
			node.Annotations = artifact.Annotations
		} else {
			var image ocispec.Manifest
			if err := json.Unmarshal(fetched, &image); err != nil {
				return nil, err
			}
			if image.Subject == nil {
				continue
			}
			if !content.Equal(*image.Subject, desc) {
				continue
			}
			node.ArtifactType = image.Config.MediaType
			node.Annotations = image.Annotations
		}
		// only keep nodes of "application/vnd.cncf.notary.signature"
		if node.ArtifactType != ArtifactTypeNotation {
			continue
		}
		results = append(results, node)
	}
'''

LOOP_LOCALS = r'''	for _, node := range predecessors {
		var (
			artifactType string
			annotations  map[string]string
		)
		switch node.MediaType {
		case artifactspec.MediaTypeArtifactManifest:
			if node.Size > maxManifestSizeLimit {
				return nil, fmt.Errorf("referrer node too large: %d bytes", node.Size)
			}
			fetched, err := content.FetchAll(ctx, target, node)
			if err != nil {
				return nil, err
			}
			var artifact artifactspec.Artifact
			if err := json.Unmarshal(fetched, &artifact); err != nil {
				return nil, err
			}
			if artifact.Subject == nil || !content.Equal(*artifact.Subject, desc) {
				continue
			}
			artifactType = artifact.ArtifactType
			annotations = artifact.Annotations
		case ocispec.MediaTypeImageManifest:
			if node.Size > maxManifestSizeLimit {
				return nil, fmt.Errorf("referrer node too large: %d bytes", node.Size)
			}
			fetched, err := content.FetchAll(ctx, target, node)
			if err != nil {
				return nil, err
			}
			var image ocispec.Manifest
			if err := json.Unmarshal(fetched, &image); err != nil {
				return nil, err
			}
			if image.Subject == nil || !content.Equal(*image.Subject, desc) {
				continue
			}
			artifactType = image.Config.MediaType
			annotations = image.Annotations
		default:
			continue
		}
		// only keep nodes of "application/vnd.cncf.notary.signature"
		if artifactType == ArtifactTypeNotation {
			signatureManifest := node
			signatureManifest.ArtifactType = artifactType
			signatureManifest.Annotations = annotations
			results = append(results, signatureManifest)
		}
	}
'''

LOOKUP0 = r'''func (c *repositoryClient) getSignatureBlobDesc(ctx context.Context, sigManifestDesc ocispec.Descriptor) (ocispec.Descriptor, error) {
	if sigManifestDesc.MediaType != artifactspec.MediaTypeArtifactManifest && sigManifestDesc.MediaType != ocispec.MediaTypeImageManifest {
		return ocispec.Descriptor{}, fmt.Errorf("sigManifestDesc.MediaType requires %q or %q, got %q", artifactspec.MediaTypeArtifactManifest, ocispec.MediaTypeImageManifest, sigManifestDesc.MediaType)
	}
	if sigManifestDesc.Size > maxManifestSizeLimit {
		return ocispec.Descriptor{}, fmt.Errorf("signature manifest too large: %d bytes", sigManifestDesc.Size)
	}

	// get the signature manifest from sigManifestDesc
	var fetcher content.Fetcher = c.GraphTarget
	if repo, ok := c.GraphTarget.(registry.Repository); ok {
		fetcher = repo.Manifests()
	}
	manifestJSON, err := content.FetchAll(ctx, fetcher, sigManifestDesc)
	if err != nil {
		return ocispec.Descriptor{}, err
	}

	// get the signature blob descriptor from signature manifest
	var signatureBlobs []ocispec.Descriptor
	// OCI image manifest
	if sigManifestDesc.MediaType == ocispec.MediaTypeImageManifest {
		var sigManifest ocispec.Manifest
		if err := json.Unmarshal(manifestJSON, &sigManifest); err != nil {
			return ocispec.Descriptor{}, err
		}
		signatureBlobs = sigManifest.Layers
	} else { // OCI artifact manifest
		var sigManifest artifactspec.Artifact
		if err := json.Unmarshal(manifestJSON, &sigManifest); err != nil {
			return ocispec.Descriptor{}, err
		}
		signatureBlobs = sigManifest.Blobs
	}

	if len(signatureBlobs) != 1 {
		return ocispec.Descriptor{}, fmt.Errorf("signature manifest requries exactly one signature envelope blob, got %d", len(signatureBlobs))
	}

	return signatureBlobs[0], nil
}

'''

LOOKUP_HELPERS = r'''func (c *repositoryClient) getSignatureBlobDesc(ctx context.Context, sigManifestDesc ocispec.Descriptor) (ocispec.Descriptor, error) {
	if err := validateSignatureManifestDesc(sigManifestDesc); err != nil {
		return ocispec.Descriptor{}, err
	}

	// get the signature manifest from sigManifestDesc
	manifestJSON, err := content.FetchAll(ctx, c.manifestFetcher(), sigManifestDesc)
	if err != nil {
		return ocispec.Descriptor{}, err
	}

	// get the signature blob descriptor from signature manifest
	signatureBlobs, err := signatureBlobsOf(sigManifestDesc.MediaType, manifestJSON)
	if err != nil {
		return ocispec.Descriptor{}, err
	}
	if len(signatureBlobs) != 1 {
		return ocispec.Descriptor{}, fmt.Errorf("signature manifest requries exactly one signature envelope blob, got %d", len(signatureBlobs))
	}

	return signatureBlobs[0], nil
}

// validateSignatureManifestDesc checks that sigManifestDesc describes a
// manifest of a supported media type that is within the manifest size limit.
func validateSignatureManifestDesc(sigManifestDesc ocispec.Descriptor) error {
	if sigManifestDesc.MediaType != artifactspec.MediaTypeArtifactManifest && sigManifestDesc.MediaType != ocispec.MediaTypeImageManifest {
		return fmt.Errorf("sigManifestDesc.MediaType requires %q or %q, got %q", artifactspec.MediaTypeArtifactManifest, ocispec.MediaTypeImageManifest, sigManifestDesc.MediaType)
	}
	if sigManifestDesc.Size > maxManifestSizeLimit {
		return fmt.Errorf("signature manifest too large: %d bytes", sigManifestDesc.Size)
	}
	return nil
}

// manifestFetcher returns the fetcher used for reading manifests from the
// underlying target.
func (c *repositoryClient) manifestFetcher() content.Fetcher {
	if repo, ok := c.GraphTarget.(registry.Repository); ok {
		return repo.Manifests()
	}
	return c.GraphTarget
}

// signatureBlobsOf decodes a signature manifest of the given media type and
// returns the descriptors of its layers (OCI image manifest) or blobs
// (OCI artifact manifest).
func signatureBlobsOf(mediaType string, manifestJSON []byte) ([]ocispec.Descriptor, error) {
	// OCI image manifest
	if mediaType == ocispec.MediaTypeImageManifest {
		var sigManifest ocispec.Manifest
		if err := json.Unmarshal(manifestJSON, &sigManifest); err != nil {
			return nil, err
		}
		return sigManifest.Layers, nil
	}
	// OCI artifact manifest
	var sigManifest artifactspec.Artifact
	if err := json.Unmarshal(manifestJSON, &sigManifest); err != nil {
		return nil, err
	}
	return sigManifest.Blobs, nil
}

'''

REFHELPER = r'''// fetchReferrerManifest returns the manifest content of the referrer node
// after enforcing the manifest size limit on its descriptor.
func fetchReferrerManifest(ctx context.Context, target content.ReadOnlyGraphStorage, node ocispec.Descriptor) ([]byte, error) {
	if node.Size > maxManifestSizeLimit {
		return nil, fmt.Errorf("referrer node too large: %d bytes", node.Size)
	}
	return content.FetchAll(ctx, target, node)
}
'''

FETCHV = r'''// fetchVerified fetches the content identified by desc from fetcher, reads
// exactly desc.Size bytes and verifies them against desc.Digest.
func fetchVerified(ctx context.Context, fetcher content.Fetcher, desc ocispec.Descriptor) ([]byte, error) {
	rc, err := fetcher.Fetch(ctx, desc)
	if err != nil {
		return nil, err
	}
	defer rc.Close()
	return content.ReadAll(rc, desc)
}

'''

SAMEC = r'''// sameContent reports whether a and b identify the same content, i.e. agree
// on media type, digest and size.
func sameContent(a, b ocispec.Descriptor) bool {
	return a.MediaType == b.MediaType && a.Digest == b.Digest && a.Size == b.Size
}
'''

CFG0 = r'''func pushNotationManifestConfig(ctx context.Context, pusher content.Storage) (ocispec.Descriptor, error) {
	// check if the config exists
	exists, err := pusher.Exists(ctx, notationEmptyConfigDesc)
	if err != nil {
		return ocispec.Descriptor{}, fmt.Errorf("unable to verify existence: %s: %s. Details: %w", notationEmptyConfigDesc.Digest.String(), notationEmptyConfigDesc.MediaType, err)
	}
	if exists {
		return notationEmptyConfigDesc, nil
	}

	// return nil if the config pushed successfully or it already exists
	if err := pusher.Push(ctx, notationEmptyConfigDesc, bytes.NewReader(notationEmptyConfigData)); err != nil && !errors.Is(err, errdef.ErrAlreadyExists) {
		return ocispec.Descriptor{}, fmt.Errorf("unable to push: %s: %s. Details: %w", notationEmptyConfigDesc.Digest.String(), notationEmptyConfigDesc.MediaType, err)
	}
	return notationEmptyConfigDesc, nil
}

'''

CFG_COPY = r'''func pushNotationManifestConfig(ctx context.Context, pusher content.Storage) (ocispec.Descriptor, error) {
	configDesc := notationEmptyConfigDesc

	// check if the config exists
	exists, err := pusher.Exists(ctx, configDesc)
	if err != nil {
		return ocispec.Descriptor{}, fmt.Errorf("unable to verify existence: %s: %s. Details: %w", configDesc.Digest.String(), configDesc.MediaType, err)
	}
	if exists {
		return configDesc, nil
	}

	// return nil if the config pushed successfully or it already exists
	if err := pusher.Push(ctx, configDesc, bytes.NewReader(notationEmptyConfigData)); err != nil && !errors.Is(err, errdef.ErrAlreadyExists) {
		return ocispec.Descriptor{}, fmt.Errorf("unable to push: %s: %s. Details: %w", configDesc.Digest.String(), configDesc.MediaType, err)
	}
	return configDesc, nil
}

'''


def sub(s, a, b):
    assert s.count(a) == 1, (a, s.count(a))
    return s.replace(a, b)

END = '\treturn results, nil\n}\n'
def tail(helper):
    """append a function at the end of the file"""
    return (R, END, END + '\n' + helper)

CAPFETCH = '\t\t\tif node.Size > maxManifestSizeLimit {\n\t\t\t\treturn nil, fmt.Errorf("referrer node too large: %d bytes", node.Size)\n\t\t\t}\n\t\t\tfetched, err := content.FetchAll(ctx, target, node)\n'
REFCAP = '\tif node.Size > maxManifestSizeLimit {\n\t\treturn nil, fmt.Errorf("referrer node too large: %d bytes", node.Size)\n\t}\n'
BLOBCAP = '\tif sigBlobDesc.Size > maxBlobSizeLimit {\n\t\treturn nil, ocispec.Descriptor{}, fmt.Errorf("signature blob too large: %d bytes", sigBlobDesc.Size)\n\t}\n'
PUSH0 = '\tblobDesc, err = oras.PushBytes(ctx, pusher, mediaType, blob)\n\tif err != nil {\n\t\treturn ocispec.Descriptor{}, ocispec.Descriptor{}, err\n\t}\n'
PUSH_SPLIT = '\tblobDesc = content.NewDescriptorFromBytes(mediaType, blob)\n\tif err = pusher.Push(ctx, blobDesc, bytes.NewReader(blob)); err != nil {\n\t\treturn ocispec.Descriptor{}, ocispec.Descriptor{}, err\n\t}\n'
GUARD = '\t\tif !isArtifactManifest && node.MediaType != ocispec.MediaTypeImageManifest {\n\t\t\t// neither an OCI artifact manifest nor an OCI image manifest\n\t\t\tcontinue\n\t\t}\n'
LOCALS = '\t\tvar (\n\t\t\tartifactType string\n\t\t\tannotations  map[string]string\n\t\t)\n'
LOOP_LOCALS_HOISTED = sub(LOOP_LOCALS, '\tfor _, node := range predecessors {\n' + LOCALS, LOCALS.replace('\t\t', '\t', 1).replace('\n\t\t', '\n\t') + '\tfor _, node := range predecessors {\n')

VARIANTS += [
 # -- the capped fetch of a referrer extracted into a helper (refactoring 1)
 dict(name='shape-referrer-fetch-helper', file=R, expect='silent', all=True,
      find=CAPFETCH, replace='\t\t\tfetched, err := fetchReferrerManifest(ctx, target, node)\n', edits=[tail(REFHELPER)]),
 dict(name='shape-referrer-fetch-helper-cap-lost', file=R, expect='flagged(cap)', all=True,
      find=CAPFETCH, replace='\t\t\tfetched, err := fetchReferrerManifest(ctx, target, node)\n', edits=[tail(sub(REFHELPER, REFCAP, ''))],
      why='the cap did not make it into the extracted helper: the sink\'s descriptor is the helper\'s parameter, the obligation moves to the call sites, which do not cap either'),
 # -- the lookup split into a validating helper and a decoding helper (refactoring 1)
 dict(name='shape-lookup-helpers', file=R, expect='silent', find=LOOKUP0, replace=LOOKUP_HELPERS),
 dict(name='shape-lookup-helpers-any-media-type', file=R, expect='flagged(lookup/media-type)', find=LOOKUP0,
      replace=sub(LOOKUP_HELPERS, 'func validateSignatureManifestDesc(sigManifestDesc ocispec.Descriptor) error {\n\tif sigManifestDesc.MediaType != artifactspec.MediaTypeArtifactManifest && sigManifestDesc.MediaType != ocispec.MediaTypeImageManifest {',
                  'func validateSignatureManifestDesc(sigManifestDesc ocispec.Descriptor) error {\n\tif sigManifestDesc.MediaType == "" {')),
 dict(name='shape-lookup-helpers-validation-ignored', file=R, expect='flagged(lookup/media-type)', find=LOOKUP0,
      replace=sub(LOOKUP_HELPERS, '\tif err := validateSignatureManifestDesc(sigManifestDesc); err != nil {\n\t\treturn ocispec.Descriptor{}, err\n\t}\n', '\t_ = validateSignatureManifestDesc(sigManifestDesc)\n')),
 dict(name='shape-lookup-helpers-decode-swapped', file=R, expect='flagged(lookup/decode-matches-media-type)', find=LOOKUP0,
      replace=sub(LOOKUP_HELPERS, '\tif mediaType == ocispec.MediaTypeImageManifest {', '\tif mediaType != ocispec.MediaTypeImageManifest {')),
 dict(name='shape-lookup-helpers-decode-error-ignored', file=R, expect='flagged(lookup/decode-error)', find=LOOKUP0,
      replace=sub(LOOKUP_HELPERS, '\tvar sigManifest artifactspec.Artifact\n\tif err := json.Unmarshal(manifestJSON, &sigManifest); err != nil {\n\t\treturn nil, err\n\t}\n', '\tvar sigManifest artifactspec.Artifact\n\t_ = json.Unmarshal(manifestJSON, &sigManifest)\n')),
 dict(name='shape-lookup-helpers-helper-error-ignored', file=R, expect='flagged(lookup/decode-error)', find=LOOKUP0,
      replace=sub(LOOKUP_HELPERS, '\tsignatureBlobs, err := signatureBlobsOf(sigManifestDesc.MediaType, manifestJSON)\n\tif err != nil {\n\t\treturn ocispec.Descriptor{}, err\n\t}\n', '\tsignatureBlobs, _ := signatureBlobsOf(sigManifestDesc.MediaType, manifestJSON)\n')),
 dict(name='shape-lookup-helpers-config-as-blob', file=R, expect='flagged(lookup/exactly-one-blob)', find=LOOKUP0,
      replace=sub(LOOKUP_HELPERS, '\t\treturn sigManifest.Layers, nil\n', '\t\treturn []ocispec.Descriptor{sigManifest.Config}, nil\n'),
      why='the helper hands back the config descriptor: exactly one element, but not the layer list of the decoded manifest'),
 # -- content.FetchAll replaced by a module function made of Fetch + ReadAll (refactoring 4)
 dict(name='shape-fetch-verified', file=R, expect='silent', all=True, find='content.FetchAll(', replace='fetchVerified(', edits=[tail(FETCHV)]),
 dict(name='shape-fetch-verified-unverified-read', file=R, expect='flagged(fetch/blob-fetch)', all=True, find='content.FetchAll(', replace='fetchVerified(',
      edits=[tail(sub(FETCHV, '\treturn content.ReadAll(rc, desc)\n', '\treturn io.ReadAll(rc)\n')), (R, '\t"fmt"\n', '\t"fmt"\n\t"io"\n')],
      why='io.ReadAll neither bounds the read by the declared size nor verifies the digest: not the read FetchAll performs'),
 dict(name='shape-fetch-verified-blob-cap-dropped', file=R, expect='flagged(cap-before-fetch)', all=True, find='content.FetchAll(', replace='fetchVerified(',
      edits=[tail(FETCHV), (R, BLOBCAP, '')]),
 dict(name='shape-fetch-verified-cap-on-manifest-desc', file=R, expect='flagged(cap-before-fetch)', all=True, find='content.FetchAll(', replace='fetchVerified(',
      edits=[tail(FETCHV), (R, '\tif sigBlobDesc.Size > maxBlobSizeLimit {', '\tif desc.Size > maxBlobSizeLimit {')]),
 # -- content.Equal replaced by its definition (refactoring 4)
 dict(name='shape-same-content', file=R, expect='silent', all=True, find='content.Equal(', replace='sameContent(', edits=[tail(SAMEC)]),
 dict(name='shape-same-content-media-type-omitted', file=R, expect='flagged(subject-equality)', all=True, find='content.Equal(', replace='sameContent(',
      edits=[tail(sub(SAMEC, 'a.MediaType == b.MediaType && ', ''))]),
 dict(name='shape-subject-three-fields-inline', file=R, expect='silent',
      find='!content.Equal(*image.Subject, desc)', replace='image.Subject.MediaType != desc.MediaType || image.Subject.Digest != desc.Digest || image.Subject.Size != desc.Size'),
 dict(name='shape-subject-two-fields-inline', file=R, expect='flagged(list/image-manifest/subject-equality)',
      find='!content.Equal(*image.Subject, desc)', replace='image.Subject.MediaType != desc.MediaType || image.Subject.Digest != desc.Digest'),
 # -- oras.PushBytes replaced by its two steps (refactoring 4)
 dict(name='shape-push-split', file=R, expect='silent', find=PUSH0, replace=PUSH_SPLIT),
 dict(name='shape-push-split-media-type-fixed', file=R, expect='flagged(push/blob)', find=PUSH0,
      replace=sub(PUSH_SPLIT, 'NewDescriptorFromBytes(mediaType, blob)', 'NewDescriptorFromBytes("application/jose+json", blob)')),
 dict(name='shape-push-split-other-bytes', file=R, expect='flagged(push/blob)', find=PUSH0,
      replace=sub(PUSH_SPLIT, 'bytes.NewReader(blob)', 'bytes.NewReader(blob[:len(blob)/2])')),
 dict(name='shape-push-split-error-ignored', file=R, expect='flagged(push/blob-error)', find=PUSH0,
      replace='\tblobDesc = content.NewDescriptorFromBytes(mediaType, blob)\n\t_ = pusher.Push(ctx, blobDesc, bytes.NewReader(blob))\n'),
 # -- the listing loop with a guard clause, shared cap + fetch, if/else on a media-type flag, index loop (refactoring 2)
 dict(name='shape-guard-clause-loop', file=R, expect='silent', find=LOOP0, replace=LOOP_GUARD),
 dict(name='shape-guard-clause-loop-any-media-type', file=R, expect='flagged(list/only-manifest-media-types)', find=LOOP0, replace=sub(LOOP_GUARD, GUARD, '')),
 dict(name='shape-guard-clause-loop-cap-dropped', file=R, expect='flagged(cap)', find=LOOP0,
      replace=sub(LOOP_GUARD, '\t\tif node.Size > maxManifestSizeLimit {\n\t\t\treturn nil, fmt.Errorf("referrer node too large: %d bytes", node.Size)\n\t\t}\n', '')),
 dict(name='shape-guard-clause-loop-fetch-error-ignored', file=R, expect='flagged(fetch-error)', find=LOOP0,
      replace=sub(LOOP_GUARD, '\t\tfetched, err := content.FetchAll(ctx, target, node)\n\t\tif err != nil {\n\t\t\treturn nil, err\n\t\t}\n', '\t\tfetched, _ := content.FetchAll(ctx, target, node)\n')),
 dict(name='shape-guard-clause-loop-image-subject-unchecked', file=R, expect='flagged(list/image-manifest/subject-equality)', find=LOOP0,
      replace=sub(LOOP_GUARD, '\t\t\tif !content.Equal(*image.Subject, desc) {\n\t\t\t\tcontinue\n\t\t\t}\n', '')),
 dict(name='shape-guard-clause-loop-filter-dropped', file=R, expect='flagged(artifact-type)', find=LOOP0,
      replace=sub(LOOP_GUARD, '\t\tif node.ArtifactType != ArtifactTypeNotation {\n\t\t\tcontinue\n\t\t}\n', '')),
 dict(name='shape-guard-clause-loop-first-element', file=R, expect='flagged(list/result)', find=LOOP0,
      replace=sub(LOOP_GUARD, '\t\tnode := predecessors[i]\n', '\t\tnode := predecessors[0]\n')),
 dict(name='shape-guard-clause-loop-flag-inverted', file=R, expect='flagged(list/artifact-manifest/decode)', find=LOOP0,
      replace=sub(LOOP_GUARD, '\t\tif isArtifactManifest {\n', '\t\tif !isArtifactManifest {\n'),
      why='artifact manifests are decoded as image manifests and vice versa'),
 # -- the listing loop with per-iteration locals and a copy made for the result (refactoring 3)
 dict(name='shape-locals-copy-loop', file=R, expect='silent', find=LOOP0, replace=LOOP_LOCALS),
 dict(name='shape-locals-copy-loop-hoisted', file=R, expect='silent', find=LOOP0, replace=LOOP_LOCALS_HOISTED,
      why='locals declared before the loop, but every path to the filter assigns both in the same iteration: nothing leaks'),
 dict(name='shape-locals-copy-loop-image-type-not-set', file=R, expect='flagged(list/image-manifest/artifact-type-origin)', find=LOOP0,
      replace=sub(LOOP_LOCALS, '\t\t\tartifactType = image.Config.MediaType\n', '')),
 dict(name='shape-locals-copy-loop-hoisted-image-type-stale', file=R, expect='flagged(list/image-manifest/artifact-type-origin)', find=LOOP0,
      replace=sub(LOOP_LOCALS_HOISTED, '\t\t\tartifactType = image.Config.MediaType\n', ''),
      why='hoisted local not assigned on the image arm: an image manifest is judged by the previous referrer\'s type'),
 dict(name='shape-locals-copy-loop-copy-of-first', file=R, expect='flagged(list/result)', find=LOOP0,
      replace=sub(LOOP_LOCALS, '\t\t\tsignatureManifest := node\n', '\t\t\tsignatureManifest := predecessors[0]\n')),
 dict(name='shape-locals-copy-loop-keeps-own-type', file=R, expect='flagged(artifact-type)', find=LOOP0,
      replace=sub(LOOP_LOCALS, '\t\t\tsignatureManifest.ArtifactType = artifactType\n', '\t\t\tsignatureManifest.ArtifactType = node.ArtifactType\n')),
 dict(name='shape-locals-copy-loop-keeps-own-annotations', file=R, expect='flagged(annotations)', find=LOOP0,
      replace=sub(LOOP_LOCALS, '\t\t\tsignatureManifest.Annotations = annotations\n', '\t\t\t_ = annotations\n\t\t\tsignatureManifest.Annotations = node.Annotations\n')),
 dict(name='shape-locals-copy-loop-media-type-rewritten', file=R, expect='flagged(list/element-identity)', find=LOOP0,
      replace=sub(LOOP_LOCALS, '\t\t\tsignatureManifest.Annotations = annotations\n', '\t\t\tsignatureManifest.Annotations = annotations\n\t\t\tsignatureManifest.MediaType = ocispec.MediaTypeImageManifest\n')),
 # -- a local copy of the immutable config descriptor (refactoring 3)
 dict(name='shape-config-local-copy', file=R, expect='silent', find=CFG0, replace=CFG_COPY),
 dict(name='shape-config-local-copy-retyped', file=R, expect='flagged(push/options/config)', find=CFG0,
      replace=sub(CFG_COPY, '\tconfigDesc := notationEmptyConfigDesc\n', '\tconfigDesc := notationEmptyConfigDesc\n\tconfigDesc.MediaType = ocispec.MediaTypeEmptyJSON\n')),
 dict(name='config-global-reassigned', file=R, expect='flagged(push/options/config)',
      edits=[tail('func useConfigMediaType(mt string) {\n\tnotationEmptyConfigDesc.MediaType = mt\n}\n')]),
 dict(name='config-global-address-handed-out', file=R, expect='flagged(push/options/config)',
      edits=[tail('func configDescriptor() *ocispec.Descriptor {\n\treturn &notationEmptyConfigDesc\n}\n')]),
]

# -- the shapes combined
VARIANTS += [
 dict(name='shape-combined-guard-loop-own-fetch-own-equal', file=R, expect='silent', find=LOOP0,
      replace=LOOP_GUARD.replace('content.FetchAll(', 'fetchVerified(').replace('content.Equal(', 'sameContent('),
      edits=[(R, 'content.FetchAll(ctx, fetcher, sigBlobDesc)', 'fetchVerified(ctx, fetcher, sigBlobDesc)'),
             (R, 'content.FetchAll(ctx, fetcher, sigManifestDesc)', 'fetchVerified(ctx, fetcher, sigManifestDesc)'),
             tail(FETCHV + '\n' + SAMEC)]),
 dict(name='shape-combined-guard-loop-own-fetch-own-equal-size-omitted', file=R, expect='flagged(subject-equality)', find=LOOP0,
      replace=LOOP_GUARD.replace('content.FetchAll(', 'fetchVerified(').replace('content.Equal(', 'sameContent('),
      edits=[(R, 'content.FetchAll(ctx, fetcher, sigBlobDesc)', 'fetchVerified(ctx, fetcher, sigBlobDesc)'),
             (R, 'content.FetchAll(ctx, fetcher, sigManifestDesc)', 'fetchVerified(ctx, fetcher, sigManifestDesc)'),
             tail(FETCHV + '\n' + sub(SAMEC, ' && a.Size == b.Size', ''))]),
 dict(name='shape-combined-locals-loop-fetch-helper', file=R, expect='silent', find=LOOP0,
      replace=LOOP_LOCALS.replace(CAPFETCH, '\t\t\tfetched, err := fetchReferrerManifest(ctx, target, node)\n'), edits=[tail(REFHELPER)]),
 dict(name='shape-combined-locals-loop-fetch-helper-cap-lost', file=R, expect='flagged(cap)', find=LOOP0,
      replace=LOOP_LOCALS.replace(CAPFETCH, '\t\t\tfetched, err := fetchReferrerManifest(ctx, target, node)\n'), edits=[tail(sub(REFHELPER, REFCAP, ''))]),
]


# ---------------------------------------------------------------------------------------------------------------
# Second pass (held-out refactorings benign2/out-C19/1, out-C19/2, out-C11/2): classes of rewrites, each with
# further members of the class written here and the same shapes *broken*.
#   class A  "helper boundary of the push": pack inline / in a helper / two levels down; upload in a helper
#   class B  "store selection in an accessor method"
#   class C  "per-iteration work of the listing in a helper handing back a record": struct / pointer / several
#            results; helper cut after the decode, around the decode only, per switch arm
# ---------------------------------------------------------------------------------------------------------------

PUSHFN0 = r'''func (c *repositoryClient) PushSignature(ctx context.Context, mediaType string, blob []byte, subject ocispec.Descriptor, annotations map[string]string) (blobDesc, manifestDesc ocispec.Descriptor, err error) {
	var pusher content.Pusher = c.GraphTarget
	if repo, ok := c.GraphTarget.(registry.Repository); ok {
		pusher = repo.Blobs()
	}
	blobDesc, err = oras.PushBytes(ctx, pusher, mediaType, blob)
	if err != nil {
		return ocispec.Descriptor{}, ocispec.Descriptor{}, err
	}
	manifestDesc, err = c.uploadSignatureManifest(ctx, subject, blobDesc, annotations)
	if err != nil {
		return ocispec.Descriptor{}, ocispec.Descriptor{}, err
	}
	return blobDesc, manifestDesc, nil
}
'''

UPLOAD0 = r'''func (c *repositoryClient) uploadSignatureManifest(ctx context.Context, subject, blobDesc ocispec.Descriptor, annotations map[string]string) (ocispec.Descriptor, error) {
	configDesc, err := pushNotationManifestConfig(ctx, c.GraphTarget)
	if err != nil {
		return ocispec.Descriptor{}, fmt.Errorf("failed to push notation manifest config: %w", err)
	}

	opts := oras.PackManifestOptions{
		Subject:             &subject,
		ManifestAnnotations: annotations,
		Layers:              []ocispec.Descriptor{blobDesc},
		ConfigDescriptor:    &configDesc,
	}

	return oras.PackManifest(ctx, c.GraphTarget, oras.PackManifestVersion1_1, "", opts)
}
'''

BLOBSTORE = r'''// blobStorage returns the storage that signature envelope blobs are read from
// and written to: the blob store of a remote repository, or the target itself
func (c *repositoryClient) blobStorage() content.Storage {
	if repo, ok := c.GraphTarget.(registry.Repository); ok {
		return repo.Blobs()
	}
	return c.GraphTarget
}
'''

# the manifest upload inlined into PushSignature, options as a literal argument, store from an accessor
PUSH_INLINED = r'''func (c *repositoryClient) PushSignature(ctx context.Context, mediaType string, blob []byte, subject ocispec.Descriptor, annotations map[string]string) (blobDesc, manifestDesc ocispec.Descriptor, err error) {
	blobDesc, err = oras.PushBytes(ctx, c.blobStorage(), mediaType, blob)
	if err != nil {
		return ocispec.Descriptor{}, ocispec.Descriptor{}, err
	}
	configDesc, err := pushNotationManifestConfig(ctx, c.GraphTarget)
	if err != nil {
		return ocispec.Descriptor{}, ocispec.Descriptor{}, fmt.Errorf("failed to push notation manifest config: %w", err)
	}
	manifestDesc, err = oras.PackManifest(ctx, c.GraphTarget, oras.PackManifestVersion1_1, "", oras.PackManifestOptions{
		Subject:             &subject,
		ManifestAnnotations: annotations,
		Layers:              []ocispec.Descriptor{blobDesc},
		ConfigDescriptor:    &configDesc,
	})
	if err != nil {
		return ocispec.Descriptor{}, ocispec.Descriptor{}, err
	}
	return blobDesc, manifestDesc, nil
}

''' + BLOBSTORE

# the upload in a helper of its own (tail call), the manifest upload left where it is
PUSH_BLOB_HELPER = r'''func (c *repositoryClient) PushSignature(ctx context.Context, mediaType string, blob []byte, subject ocispec.Descriptor, annotations map[string]string) (blobDesc, manifestDesc ocispec.Descriptor, err error) {
	blobDesc, err = c.pushEnvelope(ctx, mediaType, blob)
	if err != nil {
		return ocispec.Descriptor{}, ocispec.Descriptor{}, err
	}
	manifestDesc, err = c.uploadSignatureManifest(ctx, subject, blobDesc, annotations)
	if err != nil {
		return ocispec.Descriptor{}, ocispec.Descriptor{}, err
	}
	return blobDesc, manifestDesc, nil
}

// pushEnvelope uploads the signature envelope to the blob store
func (c *repositoryClient) pushEnvelope(ctx context.Context, envelopeMediaType string, envelope []byte) (ocispec.Descriptor, error) {
	return oras.PushBytes(ctx, c.blobStorage(), envelopeMediaType, envelope)
}

''' + BLOBSTORE

# the packing two levels down: uploadSignatureManifest pushes the config and delegates the packing
UPLOAD_NESTED = r'''func (c *repositoryClient) uploadSignatureManifest(ctx context.Context, subject, blobDesc ocispec.Descriptor, annotations map[string]string) (ocispec.Descriptor, error) {
	configDesc, err := pushNotationManifestConfig(ctx, c.GraphTarget)
	if err != nil {
		return ocispec.Descriptor{}, fmt.Errorf("failed to push notation manifest config: %w", err)
	}
	return packSignatureManifest(ctx, c.GraphTarget, configDesc, blobDesc, subject, annotations)
}

// packSignatureManifest packs and pushes the signature manifest
func packSignatureManifest(ctx context.Context, dst content.Pusher, config, layer, subject ocispec.Descriptor, annotations map[string]string) (ocispec.Descriptor, error) {
	return oras.PackManifest(ctx, dst, oras.PackManifestVersion1_1, "", oras.PackManifestOptions{
		Subject:             &subject,
		ManifestAnnotations: annotations,
		Layers:              []ocispec.Descriptor{layer},
		ConfigDescriptor:    &config,
	})
}
'''

BLOBFETCH0 = '''	var fetcher content.Fetcher = c.GraphTarget
	if repo, ok := c.GraphTarget.(registry.Repository); ok {
		fetcher = repo.Blobs()
	}
	sigBlob, err := content.FetchAll(ctx, fetcher, sigBlobDesc)
'''
BLOBFETCH_ACC = '\tsigBlob, err := content.FetchAll(ctx, c.blobStorage(), sigBlobDesc)\n'
UPLOAD_HDR = '// uploadSignatureManifest uploads the signature manifest to the registry\n'

VARIANTS += [
 # -- class A: where the packing stands
 dict(name='shape-push-inlined', file=R, expect='silent', find=PUSHFN0, replace=PUSH_INLINED, edits=[(R, UPLOAD_HDR + UPLOAD0, '')]),
 dict(name='shape-push-inlined-subject-of-blob', file=R, expect='flagged(push/options/subject)', find=PUSHFN0,
      replace=sub(PUSH_INLINED, 'Subject:             &subject,', 'Subject:             &blobDesc,'), edits=[(R, UPLOAD_HDR + UPLOAD0, '')]),
 dict(name='shape-push-inlined-two-layers', file=R, expect='flagged(push/options/single-layer)', find=PUSHFN0,
      replace=sub(PUSH_INLINED, '[]ocispec.Descriptor{blobDesc}', '[]ocispec.Descriptor{blobDesc, configDesc}'), edits=[(R, UPLOAD_HDR + UPLOAD0, '')]),
 dict(name='shape-push-inlined-layer-is-subject', file=R, expect='flagged(push/options/single-layer)', find=PUSHFN0,
      replace=sub(PUSH_INLINED, '[]ocispec.Descriptor{blobDesc}', '[]ocispec.Descriptor{subject}'), edits=[(R, UPLOAD_HDR + UPLOAD0, '')]),
 dict(name='shape-push-inlined-config-error-ignored', file=R, expect='flagged(push/options/config)', find=PUSHFN0,
      replace=sub(PUSH_INLINED, '\tconfigDesc, err := pushNotationManifestConfig(ctx, c.GraphTarget)\n\tif err != nil {\n\t\treturn ocispec.Descriptor{}, ocispec.Descriptor{}, fmt.Errorf("failed to push notation manifest config: %w", err)\n\t}\n',
                  '\tconfigDesc, _ := pushNotationManifestConfig(ctx, c.GraphTarget)\n'), edits=[(R, UPLOAD_HDR + UPLOAD0, '')]),
 dict(name='shape-push-inlined-pack-error-ignored', file=R, expect='flagged(push/)', find=PUSHFN0,
      replace=sub(PUSH_INLINED, '\t})\n\tif err != nil {\n\t\treturn ocispec.Descriptor{}, ocispec.Descriptor{}, err\n\t}\n\treturn blobDesc, manifestDesc, nil', '\t})\n\treturn blobDesc, manifestDesc, nil'),
      edits=[(R, UPLOAD_HDR + UPLOAD0, '')]),
 dict(name='shape-push-inlined-returns-config', file=R, expect='flagged(push/returns)', find=PUSHFN0,
      replace=sub(PUSH_INLINED, '\treturn blobDesc, manifestDesc, nil', '\treturn blobDesc, configDesc, nil'), edits=[(R, UPLOAD_HDR + UPLOAD0, '')]),
 dict(name='shape-push-inlined-annotations-dropped', file=R, expect='flagged(push/options/annotations)', find=PUSHFN0,
      replace=sub(PUSH_INLINED, '\t\tManifestAnnotations: annotations,\n', ''), edits=[(R, UPLOAD_HDR + UPLOAD0, '')]),
 dict(name='shape-push-nested-pack', file=R, expect='silent', find=UPLOAD0, replace=UPLOAD_NESTED),
 dict(name='shape-push-nested-pack-arguments-swapped', file=R, expect='flagged(push/options/)', find=UPLOAD0,
      replace=sub(UPLOAD_NESTED, 'packSignatureManifest(ctx, c.GraphTarget, configDesc, blobDesc, subject, annotations)', 'packSignatureManifest(ctx, c.GraphTarget, configDesc, subject, blobDesc, annotations)'),
      why='two levels down the blob descriptor arrives as the subject and the subject as the layer'),
 dict(name='shape-push-nested-pack-config-as-layer', file=R, expect='flagged(push/options/single-layer)', find=UPLOAD0,
      replace=sub(UPLOAD_NESTED, 'Layers:              []ocispec.Descriptor{layer},', 'Layers:              []ocispec.Descriptor{config},')),
 dict(name='shape-push-nested-pack-other-descriptor-handed-up', file=R, expect='flagged(push/returns)', find=UPLOAD0,
      replace=sub(UPLOAD_NESTED, '\treturn packSignatureManifest(ctx, c.GraphTarget, configDesc, blobDesc, subject, annotations)\n',
                  '\tif _, err := packSignatureManifest(ctx, c.GraphTarget, configDesc, blobDesc, subject, annotations); err != nil {\n\t\treturn ocispec.Descriptor{}, err\n\t}\n\treturn configDesc, nil\n'),
      why='the function in the middle hands up the config descriptor instead of the packed manifest\'s'),
 dict(name='shape-push-nested-pack-config-error-ignored', file=R, expect='flagged(push/options/config)', find=UPLOAD0,
      replace=sub(UPLOAD_NESTED, '\tconfigDesc, err := pushNotationManifestConfig(ctx, c.GraphTarget)\n\tif err != nil {\n\t\treturn ocispec.Descriptor{}, fmt.Errorf("failed to push notation manifest config: %w", err)\n\t}\n', '\tconfigDesc, _ := pushNotationManifestConfig(ctx, c.GraphTarget)\n'),
      why='the config descriptor reaches the packing helper as an argument; the error of the call that delivered it no longer gates the call down'),
 dict(name='shape-push-nested-pack-version', file=R, expect='flagged(push/pack-version)', find=UPLOAD0,
      replace=sub(UPLOAD_NESTED, 'oras.PackManifestVersion1_1', 'oras.PackManifestVersion1_0')),
 # -- class A: the upload in a helper
 dict(name='shape-push-blob-helper', file=R, expect='silent', find=PUSHFN0, replace=PUSH_BLOB_HELPER),
 dict(name='shape-push-blob-helper-nested-pack', file=R, expect='silent', find=PUSHFN0, replace=PUSH_BLOB_HELPER, edits=[(R, UPLOAD0, UPLOAD_NESTED)]),
 dict(name='shape-push-blob-helper-media-type-fixed', file=R, expect='flagged(push/blob)', find=PUSHFN0,
      replace=sub(PUSH_BLOB_HELPER, 'oras.PushBytes(ctx, c.blobStorage(), envelopeMediaType, envelope)', 'oras.PushBytes(ctx, c.blobStorage(), "application/jose+json", envelope)')),
 dict(name='shape-push-blob-helper-arguments-swapped', file=R, expect='flagged(push/blob)', find=PUSHFN0,
      replace=sub(PUSH_BLOB_HELPER, 'c.pushEnvelope(ctx, mediaType, blob)', 'c.pushEnvelope(ctx, string(blob), []byte(mediaType))')),
 dict(name='shape-push-blob-helper-error-swallowed', file=R, expect='flagged(push/blob)', find=PUSHFN0,
      replace=sub(PUSH_BLOB_HELPER, '\treturn oras.PushBytes(ctx, c.blobStorage(), envelopeMediaType, envelope)\n', '\td, _ := oras.PushBytes(ctx, c.blobStorage(), envelopeMediaType, envelope)\n\treturn d, nil\n'),
      why='the helper reports success whatever the upload said: it is not the upload'),
 dict(name='shape-push-blob-helper-error-ignored-by-caller', file=R, expect='flagged(push/blob-error)', find=PUSHFN0,
      replace=sub(PUSH_BLOB_HELPER, '\tblobDesc, err = c.pushEnvelope(ctx, mediaType, blob)\n\tif err != nil {\n\t\treturn ocispec.Descriptor{}, ocispec.Descriptor{}, err\n\t}\n', '\tblobDesc, _ = c.pushEnvelope(ctx, mediaType, blob)\n')),
 # -- class B: the store an accessor selects
 dict(name='shape-blob-store-accessor', file=R, expect='silent', find=BLOBFETCH0, replace=BLOBFETCH_ACC, edits=[tail(BLOBSTORE)]),
 dict(name='shape-blob-store-accessor-manifest-store', file=R, expect='flagged(fetch/blob-store)', find=BLOBFETCH0, replace=BLOBFETCH_ACC,
      edits=[tail(sub(BLOBSTORE, 'return repo.Blobs()', 'return repo.Manifests()'))]),
 dict(name='shape-blob-store-accessor-foreign-store', file=R, expect='flagged(fetch/blob-store)', find=BLOBFETCH0, replace=BLOBFETCH_ACC,
      edits=[tail(sub(BLOBSTORE, '\treturn c.GraphTarget\n', '\treturn fallbackStore\n') + '\nvar fallbackStore content.Storage\n')],
      why='one of the accessor\'s returns is a store that is not the repository\'s target'),
 dict(name='shape-blob-store-accessor-of-other-client', file=R, expect='flagged(fetch/blob-store)', find=BLOBFETCH0,
      replace='\tsigBlob, err := content.FetchAll(ctx, (&repositoryClient{}).blobStorage(), sigBlobDesc)\n', edits=[tail(BLOBSTORE)]),
]

BLOBSTORE_FN = r'''// blobStoreOf returns the store that holds the blobs of target
func blobStoreOf(target oras.GraphTarget) content.Fetcher {
	repo, ok := target.(registry.Repository)
	if !ok {
		return target
	}
	return repo.Blobs()
}
'''
VARIANTS += [
 dict(name='shape-blob-store-function', file=R, expect='silent', find=BLOBFETCH0,
      replace='\tsigBlob, err := content.FetchAll(ctx, blobStoreOf(c.GraphTarget), sigBlobDesc)\n', edits=[tail(BLOBSTORE_FN)]),
 dict(name='shape-blob-store-function-manifest-store', file=R, expect='flagged(fetch/blob-store)', find=BLOBFETCH0,
      replace='\tsigBlob, err := content.FetchAll(ctx, blobStoreOf(c.GraphTarget), sigBlobDesc)\n', edits=[tail(sub(BLOBSTORE_FN, 'return repo.Blobs()', 'return repo.Manifests()'))]),
]

# -- class C: the per-iteration work of the listing in a helper handing back a record
LOOP_INFO = r'''	for _, node := range predecessors {
		if node.MediaType != artifactspec.MediaTypeArtifactManifest && node.MediaType != ocispec.MediaTypeImageManifest {
			// not a manifest that can refer to a subject
			continue
		}
		info, err := fetchReferrerInfo(ctx, target, node)
		if err != nil {
			return nil, err
		}
		if info.subject == nil || !content.Equal(*info.subject, desc) {
			continue
		}
		// only keep nodes of "application/vnd.cncf.notary.signature"
		if info.artifactType != ArtifactTypeNotation {
			continue
		}
		node.ArtifactType = info.artifactType
		node.Annotations = info.annotations
		results = append(results, node)
	}
'''

INFO_TYPE = r'''// referrerInfo is the part of a referrer manifest that is needed to decide
// whether the manifest is a signature of a given subject
type referrerInfo struct {
	subject      *ocispec.Descriptor
	artifactType string
	annotations  map[string]string
}
'''

INFO_HELPER = INFO_TYPE + r'''
// fetchReferrerInfo fetches the manifest described by node from target and
// extracts its subject, artifact type and annotations.
func fetchReferrerInfo(ctx context.Context, target content.Fetcher, node ocispec.Descriptor) (referrerInfo, error) {
	if node.Size > maxManifestSizeLimit {
		return referrerInfo{}, fmt.Errorf("referrer node too large: %d bytes", node.Size)
	}
	fetched, err := content.FetchAll(ctx, target, node)
	if err != nil {
		return referrerInfo{}, err
	}

	if node.MediaType == artifactspec.MediaTypeArtifactManifest {
		var artifact artifactspec.Artifact
		if err := json.Unmarshal(fetched, &artifact); err != nil {
			return referrerInfo{}, err
		}
		return referrerInfo{
			subject:      artifact.Subject,
			artifactType: artifact.ArtifactType,
			annotations:  artifact.Annotations,
		}, nil
	}

	var image ocispec.Manifest
	if err := json.Unmarshal(fetched, &image); err != nil {
		return referrerInfo{}, err
	}
	return referrerInfo{
		subject:      image.Subject,
		artifactType: image.Config.MediaType,
		annotations:  image.Annotations,
	}, nil
}
'''

# the same helper handing back a pointer to the record
INFO_HELPER_PTR = (INFO_HELPER.replace('(referrerInfo, error)', '(*referrerInfo, error)')
                   .replace('return referrerInfo{}, ', 'return nil, ').replace('return referrerInfo{\n', 'return &referrerInfo{\n'))

# the same helper handing back the three values as separate results, switch inside
MULTI_HELPER = r'''// referrerFields fetches the manifest described by node and returns its
// subject, artifact type and annotations.
func referrerFields(ctx context.Context, target content.Fetcher, node ocispec.Descriptor) (*ocispec.Descriptor, string, map[string]string, error) {
	if node.Size > maxManifestSizeLimit {
		return nil, "", nil, fmt.Errorf("referrer node too large: %d bytes", node.Size)
	}
	fetched, err := content.FetchAll(ctx, target, node)
	if err != nil {
		return nil, "", nil, err
	}
	switch node.MediaType {
	case artifactspec.MediaTypeArtifactManifest:
		var artifact artifactspec.Artifact
		if err := json.Unmarshal(fetched, &artifact); err != nil {
			return nil, "", nil, err
		}
		return artifact.Subject, artifact.ArtifactType, artifact.Annotations, nil
	case ocispec.MediaTypeImageManifest:
		var image ocispec.Manifest
		if err := json.Unmarshal(fetched, &image); err != nil {
			return nil, "", nil, err
		}
		return image.Subject, image.Config.MediaType, image.Annotations, nil
	}
	return nil, "", nil, fmt.Errorf("unsupported referrer media type %q", node.MediaType)
}
'''
LOOP_MULTI = (LOOP_INFO.replace('info, err := fetchReferrerInfo(ctx, target, node)', 'subject, artifactType, annotations, err := referrerFields(ctx, target, node)')
              .replace('info.subject', 'subject').replace('info.artifactType', 'artifactType').replace('info.annotations', 'annotations'))

# the helper cut around the decode only: cap and fetch stay in the loop, the helper gets the media type and the bytes
DECODE_HELPER = INFO_TYPE + r'''
// decodeReferrer decodes a referrer manifest of the given media type
func decodeReferrer(manifestMediaType string, manifestJSON []byte) (referrerInfo, error) {
	if manifestMediaType == ocispec.MediaTypeImageManifest {
		var image ocispec.Manifest
		if err := json.Unmarshal(manifestJSON, &image); err != nil {
			return referrerInfo{}, err
		}
		return referrerInfo{subject: image.Subject, artifactType: image.Config.MediaType, annotations: image.Annotations}, nil
	}
	var artifact artifactspec.Artifact
	if err := json.Unmarshal(manifestJSON, &artifact); err != nil {
		return referrerInfo{}, err
	}
	return referrerInfo{subject: artifact.Subject, artifactType: artifact.ArtifactType, annotations: artifact.Annotations}, nil
}
'''
LOOP_DECODE = sub(LOOP_INFO, '\t\tinfo, err := fetchReferrerInfo(ctx, target, node)\n\t\tif err != nil {\n\t\t\treturn nil, err\n\t\t}\n',
                  '\t\tif node.Size > maxManifestSizeLimit {\n\t\t\treturn nil, fmt.Errorf("referrer node too large: %d bytes", node.Size)\n\t\t}\n'
                  '\t\tfetched, err := content.FetchAll(ctx, target, node)\n\t\tif err != nil {\n\t\t\treturn nil, err\n\t\t}\n'
                  '\t\tinfo, err := decodeReferrer(node.MediaType, fetched)\n\t\tif err != nil {\n\t\t\treturn nil, err\n\t\t}\n')

# one helper per switch arm (no media-type test inside), the switch and the filter left as they are
ARM_HELPERS = INFO_TYPE + r'''
func artifactReferrerInfo(ctx context.Context, target content.Fetcher, node ocispec.Descriptor) (referrerInfo, error) {
	if node.Size > maxManifestSizeLimit {
		return referrerInfo{}, fmt.Errorf("referrer node too large: %d bytes", node.Size)
	}
	fetched, err := content.FetchAll(ctx, target, node)
	if err != nil {
		return referrerInfo{}, err
	}
	var artifact artifactspec.Artifact
	if err := json.Unmarshal(fetched, &artifact); err != nil {
		return referrerInfo{}, err
	}
	return referrerInfo{subject: artifact.Subject, artifactType: artifact.ArtifactType, annotations: artifact.Annotations}, nil
}

func imageReferrerInfo(ctx context.Context, target content.Fetcher, node ocispec.Descriptor) (referrerInfo, error) {
	if node.Size > maxManifestSizeLimit {
		return referrerInfo{}, fmt.Errorf("referrer node too large: %d bytes", node.Size)
	}
	fetched, err := content.FetchAll(ctx, target, node)
	if err != nil {
		return referrerInfo{}, err
	}
	var image ocispec.Manifest
	if err := json.Unmarshal(fetched, &image); err != nil {
		return referrerInfo{}, err
	}
	return referrerInfo{subject: image.Subject, artifactType: image.Config.MediaType, annotations: image.Annotations}, nil
}
'''
LOOP_ARMS = r'''	for _, node := range predecessors {
		switch node.MediaType {
		case artifactspec.MediaTypeArtifactManifest:
			info, err := artifactReferrerInfo(ctx, target, node)
			if err != nil {
				return nil, err
			}
			if info.subject == nil || !content.Equal(*info.subject, desc) {
				continue
			}
			node.ArtifactType = info.artifactType
			node.Annotations = info.annotations
		case ocispec.MediaTypeImageManifest:
			info, err := imageReferrerInfo(ctx, target, node)
			if err != nil {
				return nil, err
			}
			if info.subject == nil || !content.Equal(*info.subject, desc) {
				continue
			}
			node.ArtifactType = info.artifactType
			node.Annotations = info.annotations
		default:
			continue
		}
		// only keep nodes of "application/vnd.cncf.notary.signature"
		if node.ArtifactType == ArtifactTypeNotation {
			results = append(results, node)
		}
	}
'''
INFO_CAP = '\tif node.Size > maxManifestSizeLimit {\n\t\treturn referrerInfo{}, fmt.Errorf("referrer node too large: %d bytes", node.Size)\n\t}\n'
INFO_IMG_DEC = '\tvar image ocispec.Manifest\n\tif err := json.Unmarshal(fetched, &image); err != nil {\n\t\treturn referrerInfo{}, err\n\t}\n'

VARIANTS += [
 dict(name='shape-referrer-info-helper', file=R, expect='silent', find=LOOP0, replace=LOOP_INFO, edits=[tail(INFO_HELPER)]),
 dict(name='shape-referrer-info-helper-cap-lost', file=R, expect='flagged(cap)', find=LOOP0, replace=LOOP_INFO, edits=[tail(sub(INFO_HELPER, INFO_CAP, ''))]),
 dict(name='shape-referrer-info-helper-decode-swapped', file=R, expect='flagged(list/artifact-manifest/decode)', find=LOOP0, replace=LOOP_INFO,
      edits=[tail(sub(INFO_HELPER, '\tif node.MediaType == artifactspec.MediaTypeArtifactManifest {', '\tif node.MediaType != artifactspec.MediaTypeArtifactManifest {'))],
      why='inside the helper artifact manifests are decoded as image manifests and vice versa'),
 dict(name='shape-referrer-info-helper-image-type-from-artifact-type-field', file=R, expect='flagged(list/image-manifest/artifact-type-origin)', find=LOOP0, replace=LOOP_INFO,
      edits=[tail(sub(INFO_HELPER, 'artifactType: image.Config.MediaType,', 'artifactType: image.ArtifactType,'))]),
 dict(name='shape-referrer-info-helper-decode-error-ignored', file=R, expect='flagged(list/image-manifest/decode)', find=LOOP0, replace=LOOP_INFO,
      edits=[tail(sub(INFO_HELPER, INFO_IMG_DEC, '\tvar image ocispec.Manifest\n\t_ = json.Unmarshal(fetched, &image)\n'))]),
 dict(name='shape-referrer-info-helper-error-ignored-by-caller', file=R, expect='flagged(list/)', find=LOOP0,
      replace=sub(LOOP_INFO, '\t\tinfo, err := fetchReferrerInfo(ctx, target, node)\n\t\tif err != nil {\n\t\t\treturn nil, err\n\t\t}\n', '\t\tinfo, _ := fetchReferrerInfo(ctx, target, node)\n'),
      edits=[tail(INFO_HELPER)]),
 dict(name='shape-referrer-info-helper-subject-is-config', file=R, expect='flagged(list/image-manifest/subject-equality)', find=LOOP0, replace=LOOP_INFO,
      edits=[tail(sub(INFO_HELPER, 'subject:      image.Subject,', 'subject:      &image.Config,'))],
      why='the record\'s subject is not the decoded manifest\'s subject: the caller\'s test compares something else'),
 dict(name='shape-referrer-info-helper-annotations-of-node', file=R, expect='flagged(list/artifact-manifest/annotations)', find=LOOP0, replace=LOOP_INFO,
      edits=[tail(sub(INFO_HELPER, 'annotations:  artifact.Annotations,', 'annotations:  node.Annotations,'))]),
 dict(name='shape-referrer-info-helper-type-forced-by-caller', file=R, expect='flagged(artifact-type)', find=LOOP0,
      replace=sub(LOOP_INFO, '\t\tif info.artifactType != ArtifactTypeNotation {', '\t\tif info.artifactType == "" {\n\t\t\tinfo.artifactType = ArtifactTypeNotation\n\t\t}\n\t\tif info.artifactType != ArtifactTypeNotation {'),
      edits=[tail(INFO_HELPER)], why='the caller rewrites the record before the filter: referrers without a type pass'),
 dict(name='shape-referrer-info-helper-filter-dropped', file=R, expect='flagged(artifact-type)', find=LOOP0,
      replace=sub(LOOP_INFO, '\t\tif info.artifactType != ArtifactTypeNotation {\n\t\t\tcontinue\n\t\t}\n', ''), edits=[tail(INFO_HELPER)]),
 dict(name='shape-referrer-info-helper-subject-unchecked', file=R, expect='flagged(subject-equality)', find=LOOP0,
      replace=sub(LOOP_INFO, '\t\tif info.subject == nil || !content.Equal(*info.subject, desc) {\n\t\t\tcontinue\n\t\t}\n', ''), edits=[tail(INFO_HELPER)]),
 dict(name='shape-referrer-info-helper-any-media-type', file=R, expect='flagged(list/only-manifest-media-types)', find=LOOP0,
      replace=sub(LOOP_INFO, '\t\tif node.MediaType != artifactspec.MediaTypeArtifactManifest && node.MediaType != ocispec.MediaTypeImageManifest {\n\t\t\t// not a manifest that can refer to a subject\n\t\t\tcontinue\n\t\t}\n', ''),
      edits=[tail(INFO_HELPER)]),
 dict(name='shape-referrer-info-helper-shared-decode-target', file=R, expect='flagged(list/image-manifest/decode)', find=LOOP0, replace=LOOP_INFO,
      edits=[tail(sub(INFO_HELPER, INFO_IMG_DEC, '\timage := &sharedImageManifest\n\tif err := json.Unmarshal(fetched, image); err != nil {\n\t\treturn referrerInfo{}, err\n\t}\n') + '\nvar sharedImageManifest ocispec.Manifest\n')],
      why='the helper decodes into a package-level variable: fields the next manifest omits keep the previous referrer\'s values'),
 dict(name='shape-referrer-info-helper-fetches-other-descriptor', file=R, expect='flagged(list/)', find=LOOP0,
      replace=sub(LOOP_INFO, 'fetchReferrerInfo(ctx, target, node)', 'fetchReferrerInfo(ctx, target, predecessors[0])'), edits=[tail(INFO_HELPER)],
      why='the helper is handed another descriptor than the current referrer'),
 # the record by pointer
 dict(name='shape-referrer-info-pointer', file=R, expect='silent', find=LOOP0, replace=LOOP_INFO, edits=[tail(INFO_HELPER_PTR)]),
 dict(name='shape-referrer-info-pointer-type-forced-by-caller', file=R, expect='flagged(artifact-type)', find=LOOP0,
      replace=sub(LOOP_INFO, '\t\tif info.artifactType != ArtifactTypeNotation {', '\t\tif info.artifactType == "" {\n\t\t\tinfo.artifactType = ArtifactTypeNotation\n\t\t}\n\t\tif info.artifactType != ArtifactTypeNotation {'),
      edits=[tail(INFO_HELPER_PTR)]),
 dict(name='shape-referrer-info-pointer-image-type-from-artifact-type-field', file=R, expect='flagged(list/image-manifest/artifact-type-origin)', find=LOOP0, replace=LOOP_INFO,
      edits=[tail(sub(INFO_HELPER_PTR, 'artifactType: image.Config.MediaType,', 'artifactType: image.ArtifactType,'))]),
 # several results
 dict(name='shape-referrer-fields-results', file=R, expect='silent', find=LOOP0, replace=LOOP_MULTI, edits=[tail(MULTI_HELPER)]),
 dict(name='shape-referrer-fields-results-image-type-from-artifact-type-field', file=R, expect='flagged(list/image-manifest/artifact-type-origin)', find=LOOP0, replace=LOOP_MULTI,
      edits=[tail(sub(MULTI_HELPER, 'return image.Subject, image.Config.MediaType, image.Annotations, nil', 'return image.Subject, image.ArtifactType, image.Annotations, nil'))]),
 dict(name='shape-referrer-fields-results-subject-of-other-arm', file=R, expect='flagged(list/artifact-manifest/subject-equality)', find=LOOP0, replace=LOOP_MULTI,
      edits=[tail(sub(MULTI_HELPER, 'return artifact.Subject, artifact.ArtifactType, artifact.Annotations, nil', 'return &node, artifact.ArtifactType, artifact.Annotations, nil'))],
      why='the subject handed back is the referrer\'s own descriptor, not the decoded subject'),
 dict(name='shape-referrer-fields-results-cap-after-fetch', file=R, expect='flagged(cap-before-fetch)', find=LOOP0, replace=LOOP_MULTI,
      edits=[tail(sub(sub(MULTI_HELPER, '\tif node.Size > maxManifestSizeLimit {\n\t\treturn nil, "", nil, fmt.Errorf("referrer node too large: %d bytes", node.Size)\n\t}\n', ''),
                      '\tswitch node.MediaType {\n', '\tif node.Size > maxManifestSizeLimit {\n\t\treturn nil, "", nil, fmt.Errorf("referrer node too large: %d bytes", node.Size)\n\t}\n\tswitch node.MediaType {\n'))]),
 # the helper around the decode only
 dict(name='shape-referrer-decode-helper', file=R, expect='silent', find=LOOP0, replace=LOOP_DECODE, edits=[tail(DECODE_HELPER)]),
 dict(name='shape-referrer-decode-helper-fixed-media-type', file=R, expect='flagged(list/artifact-manifest/decode)', find=LOOP0,
      replace=sub(LOOP_DECODE, 'decodeReferrer(node.MediaType, fetched)', 'decodeReferrer(ocispec.MediaTypeImageManifest, fetched)'), edits=[tail(DECODE_HELPER)],
      why='every referrer is decoded as an image manifest'),
 dict(name='shape-referrer-decode-helper-other-bytes', file=R, expect='flagged(decode)', find=LOOP0,
      replace=sub(LOOP_DECODE, 'decodeReferrer(node.MediaType, fetched)', 'decodeReferrer(node.MediaType, fetched[:len(fetched)/2])'), edits=[tail(DECODE_HELPER)]),
 dict(name='shape-referrer-decode-helper-cap-dropped', file=R, expect='flagged(cap)', find=LOOP0,
      replace=sub(LOOP_DECODE, '\t\tif node.Size > maxManifestSizeLimit {\n\t\t\treturn nil, fmt.Errorf("referrer node too large: %d bytes", node.Size)\n\t\t}\n', ''), edits=[tail(DECODE_HELPER)]),
 dict(name='shape-referrer-decode-helper-decode-swapped', file=R, expect='flagged(list/image-manifest/decode)', find=LOOP0, replace=LOOP_DECODE,
      edits=[tail(sub(DECODE_HELPER, '\tif manifestMediaType == ocispec.MediaTypeImageManifest {', '\tif manifestMediaType != ocispec.MediaTypeImageManifest {'))]),
 # one helper per switch arm
 dict(name='shape-referrer-arm-helpers', file=R, expect='silent', find=LOOP0, replace=LOOP_ARMS, edits=[tail(ARM_HELPERS)]),
 dict(name='shape-referrer-arm-helpers-crossed', file=R, expect='flagged(list/artifact-manifest/decode)', find=LOOP0,
      replace=sub(LOOP_ARMS, 'info, err := artifactReferrerInfo(ctx, target, node)', 'info, err := imageReferrerInfo(ctx, target, node)'), edits=[tail(ARM_HELPERS)],
      why='the artifact-manifest arm calls the image-manifest helper'),
 dict(name='shape-referrer-arm-helpers-image-subject-unchecked', file=R, expect='flagged(list/image-manifest/subject-equality)', find=LOOP0,
      replace=LOOP_ARMS.replace('\t\t\tif info.subject == nil || !content.Equal(*info.subject, desc) {\n\t\t\t\tcontinue\n\t\t\t}\n\t\t\tnode.ArtifactType = info.artifactType\n\t\t\tnode.Annotations = info.annotations\n\t\tdefault:', '\t\t\tnode.ArtifactType = info.artifactType\n\t\t\tnode.Annotations = info.annotations\n\t\tdefault:'),
      edits=[tail(ARM_HELPERS)]),
 # combined with the first pass's shapes: own fetch + own equality inside/around the helper
 dict(name='shape-combined-info-helper-own-fetch-own-equal', file=R, expect='silent', find=LOOP0,
      replace=LOOP_INFO.replace('content.Equal(', 'sameContent('),
      edits=[(R, 'content.FetchAll(ctx, fetcher, sigBlobDesc)', 'fetchVerified(ctx, fetcher, sigBlobDesc)'),
             (R, 'content.FetchAll(ctx, fetcher, sigManifestDesc)', 'fetchVerified(ctx, fetcher, sigManifestDesc)'),
             tail(INFO_HELPER.replace('content.FetchAll(', 'fetchVerified(') + '\n' + FETCHV + '\n' + SAMEC)]),
 dict(name='shape-combined-info-helper-own-fetch-own-equal-digest-omitted', file=R, expect='flagged(subject-equality)', find=LOOP0,
      replace=LOOP_INFO.replace('content.Equal(', 'sameContent('),
      edits=[(R, 'content.FetchAll(ctx, fetcher, sigBlobDesc)', 'fetchVerified(ctx, fetcher, sigBlobDesc)'),
             (R, 'content.FetchAll(ctx, fetcher, sigManifestDesc)', 'fetchVerified(ctx, fetcher, sigManifestDesc)'),
             tail(INFO_HELPER.replace('content.FetchAll(', 'fetchVerified(') + '\n' + FETCHV + '\n' + sub(SAMEC, ' && a.Digest == b.Digest', ''))]),
]


# ---------------------------------------------------------------------------------------------------------------
# Third pass. Class P: the per-referrer filter (subject, artifact type) decided by a predicate — a method of the
# record the decode helper hands back (value or pointer receiver), a function over the fields, over the element,
# answering "keep" or "skip", written with guard clauses or as one boolean expression. Class L: the lookup's result
# parked in a local, checks moved between the lookup and its caller, `switch` instead of `if` chains.
# ---------------------------------------------------------------------------------------------------------------

LOOP_PRED = r'''	for _, node := range predecessors {
		if node.MediaType != artifactspec.MediaTypeArtifactManifest && node.MediaType != ocispec.MediaTypeImageManifest {
			// neither an OCI artifact manifest nor an OCI image manifest
			continue
		}
		info, err := fetchReferrerInfo(ctx, target, node)
		if err != nil {
			return nil, err
		}
		// only keep nodes of "application/vnd.cncf.notary.signature" that refer to desc
		if !info.isSignatureOf(desc) {
			continue
		}
		node.ArtifactType = info.artifactType
		node.Annotations = info.annotations
		results = append(results, node)
	}
'''
PRED_METHOD = r'''
// isSignatureOf reports whether the referrer points at subject and is of the
// notation signature artifact type.
func (r referrerInfo) isSignatureOf(subject ocispec.Descriptor) bool {
	if r.subject == nil || !content.Equal(*r.subject, subject) {
		return false
	}
	return r.artifactType == ArtifactTypeNotation
}
'''
PRED_METHOD_EXPR = r'''
func (r referrerInfo) isSignatureOf(subject ocispec.Descriptor) bool {
	return r.subject != nil && content.Equal(*r.subject, subject) && r.artifactType == ArtifactTypeNotation
}
'''
PRED_METHOD_GUARDS = r'''
func (r referrerInfo) isSignatureOf(subject ocispec.Descriptor) bool {
	if r.artifactType != ArtifactTypeNotation {
		return false
	}
	if r.subject == nil {
		return false
	}
	if !content.Equal(*r.subject, subject) {
		return false
	}
	return true
}
'''
PRED_METHOD_PTR = PRED_METHOD.replace('func (r referrerInfo) isSignatureOf', 'func (r *referrerInfo) isSignatureOf')
PRED_NEG = r'''
// notSignatureOf reports whether the referrer must be skipped
func (r referrerInfo) notSignatureOf(subject ocispec.Descriptor) bool {
	if r.subject == nil || !content.Equal(*r.subject, subject) {
		return true
	}
	return r.artifactType != ArtifactTypeNotation
}
'''
PRED_FIELDS = r'''
// isNotationSignatureOf reports whether a referrer with the given subject and artifact type is a notation
// signature of want
func isNotationSignatureOf(referrerSubject *ocispec.Descriptor, referrerType string, want ocispec.Descriptor) bool {
	if referrerSubject == nil {
		return false
	}
	if !content.Equal(*referrerSubject, want) {
		return false
	}
	return referrerType == ArtifactTypeNotation
}
'''
PRED_TWO = r'''
func (r referrerInfo) refersTo(subject ocispec.Descriptor) bool {
	return r.subject != nil && content.Equal(*r.subject, subject)
}

func (r referrerInfo) isNotation() bool {
	switch r.artifactType {
	case ArtifactTypeNotation:
		return true
	}
	return false
}
'''
PRED_CALL = '\t\tif !info.isSignatureOf(desc) {\n\t\t\tcontinue\n\t\t}\n'
# the predicate over the element, after the decoded type was copied onto it
LOOP_PRED_NODE = sub(sub(LOOP_PRED, PRED_CALL, '\t\tif info.subject == nil || !content.Equal(*info.subject, desc) {\n\t\t\tcontinue\n\t\t}\n'),
                     '\t\tnode.Annotations = info.annotations\n', '\t\tnode.Annotations = info.annotations\n\t\tif !isNotationNode(node) {\n\t\t\tcontinue\n\t\t}\n')
PRED_NODE = r'''
func isNotationNode(d ocispec.Descriptor) bool {
	return d.ArtifactType == ArtifactTypeNotation
}
'''

def pred(loop, *helpers, info=None):
    return dict(file=R, find=LOOP0, replace=loop, edits=[tail((info or INFO_HELPER) + ''.join(helpers))])

VARIANTS += [
 dict(name='p3-filter-predicate-method', expect='silent', **pred(LOOP_PRED, PRED_METHOD)),
 dict(name='p3-filter-predicate-method-one-expression', expect='silent', **pred(LOOP_PRED, PRED_METHOD_EXPR)),
 dict(name='p3-filter-predicate-method-guard-clauses', expect='silent', **pred(LOOP_PRED, PRED_METHOD_GUARDS)),
 dict(name='p3-filter-predicate-negative', expect='silent',
      **pred(sub(LOOP_PRED, '\t\tif !info.isSignatureOf(desc) {', '\t\tif info.notSignatureOf(desc) {'), PRED_NEG)),
 dict(name='p3-filter-predicate-over-fields', expect='silent',
      **pred(sub(LOOP_PRED, '!info.isSignatureOf(desc)', '!isNotationSignatureOf(info.subject, info.artifactType, desc)'), PRED_FIELDS)),
 dict(name='p3-filter-predicate-pointer-receiver', expect='silent', **pred(LOOP_PRED, PRED_METHOD_PTR)),
 dict(name='p3-filter-predicate-pointer-record', expect='silent', **pred(LOOP_PRED, PRED_METHOD_PTR, info=INFO_HELPER_PTR)),
 dict(name='p3-filter-two-predicates', expect='silent',
      **pred(sub(LOOP_PRED, PRED_CALL, '\t\tif !info.refersTo(desc) || !info.isNotation() {\n\t\t\tcontinue\n\t\t}\n'), PRED_TWO)),
 dict(name='p3-filter-predicate-over-element', expect='silent', **pred(LOOP_PRED_NODE, PRED_NODE)),
 dict(name='p3-filter-predicate-nested-ok', expect='silent',
      **pred(LOOP_PRED.replace(PRED_CALL, '\t\tif info.isSignatureOf(desc) {\n\t\t\tnode.ArtifactType = info.artifactType\n\t\t\tnode.Annotations = info.annotations\n\t\t\tresults = append(results, node)\n\t\t}\n')
             .replace('\t\tnode.ArtifactType = info.artifactType\n\t\tnode.Annotations = info.annotations\n\t\tresults = append(results, node)\n', ''), PRED_METHOD)),
 # the class broken
 dict(name='p3-filter-predicate-type-test-dropped', expect='flagged(artifact-type)',
      **pred(LOOP_PRED, sub(PRED_METHOD, '\treturn r.artifactType == ArtifactTypeNotation\n', '\treturn true\n'))),
 dict(name='p3-filter-predicate-type-of-requested-descriptor', expect='flagged(artifact-type)',
      **pred(LOOP_PRED, sub(PRED_METHOD, '\treturn r.artifactType == ArtifactTypeNotation\n', '\treturn subject.ArtifactType == ArtifactTypeNotation\n')),
      why='the predicate compares the artifact type of the descriptor asked for, not the referrer\'s'),
 dict(name='p3-filter-predicate-early-accept', expect='flagged(artifact-type)',
      **pred(LOOP_PRED, sub(PRED_METHOD, '\treturn r.artifactType == ArtifactTypeNotation\n', '\tif r.artifactType == "" {\n\t\treturn true\n\t}\n\treturn r.artifactType == ArtifactTypeNotation\n')),
      why='one answer `true` of the predicate passes no type test'),
 dict(name='p3-filter-predicate-or-in-expression', expect='flagged(list/)',
      **pred(LOOP_PRED, sub(PRED_METHOD_EXPR, '&& r.artifactType == ArtifactTypeNotation', '&& (r.artifactType == ArtifactTypeNotation || len(r.annotations) > 0)'))),
 dict(name='p3-filter-predicate-subject-nil-accepted', expect='flagged(subject-equality)',
      **pred(LOOP_PRED, sub(PRED_METHOD, 'if r.subject == nil || !content.Equal(*r.subject, subject) {', 'if r.subject != nil && !content.Equal(*r.subject, subject) {'))),
 dict(name='p3-filter-predicate-subject-test-dropped', expect='flagged(subject-equality)',
      **pred(LOOP_PRED, sub(PRED_METHOD, '\tif r.subject == nil || !content.Equal(*r.subject, subject) {\n\t\treturn false\n\t}\n', ''))),
 dict(name='p3-filter-predicate-subject-equal-to-itself', expect='flagged(subject-equality)',
      **pred(LOOP_PRED, sub(PRED_METHOD, 'content.Equal(*r.subject, subject)', 'content.Equal(*r.subject, *r.subject)'))),
 dict(name='p3-filter-predicate-answer-ignored', expect='flagged(list/)',
      **pred(sub(LOOP_PRED, PRED_CALL, '\t\t_ = info.isSignatureOf(desc)\n'), PRED_METHOD)),
 dict(name='p3-filter-predicate-answer-inverted', expect='flagged(list/)',
      **pred(sub(LOOP_PRED, '\t\tif !info.isSignatureOf(desc) {', '\t\tif info.isSignatureOf(desc) {'), PRED_METHOD)),
 dict(name='p3-filter-predicate-on-made-up-record', expect='flagged(artifact-type)',
      **pred(sub(LOOP_PRED, '!info.isSignatureOf(desc)', '!(referrerInfo{artifactType: ArtifactTypeNotation, subject: info.subject}).isSignatureOf(desc)'), PRED_METHOD),
      why='the predicate is asked about a record made up on the spot, not about the decoded one'),
 dict(name='p3-filter-predicate-over-fields-type-constant', expect='flagged(artifact-type)',
      **pred(sub(LOOP_PRED, '!info.isSignatureOf(desc)', '!isNotationSignatureOf(info.subject, ArtifactTypeNotation, desc)'), PRED_FIELDS),
      why='the caller hands the predicate the notation type itself'),
 dict(name='p3-filter-predicate-over-fields-subject-of-node', expect='flagged(subject-equality)',
      **pred(sub(LOOP_PRED, '!info.isSignatureOf(desc)', '!isNotationSignatureOf(&node, info.artifactType, desc)'), PRED_FIELDS)),
 dict(name='p3-filter-predicate-pointer-receiver-writes-record', expect='flagged(artifact-type)',
      **pred(LOOP_PRED, sub(PRED_METHOD_PTR, '\treturn r.artifactType == ArtifactTypeNotation\n', '\tif r.artifactType == "" {\n\t\tr.artifactType = ArtifactTypeNotation\n\t}\n\treturn r.artifactType == ArtifactTypeNotation\n')),
      why='the predicate repairs the record it is asked about: untyped referrers pass and are listed as signatures'),
 dict(name='p3-filter-predicate-type-rewritten-after-test', expect='flagged(artifact-type)',
      **pred(sub(LOOP_PRED, '\t\tnode.ArtifactType = info.artifactType\n', '\t\tnode.ArtifactType = ArtifactTypeNotation\n'), sub(PRED_METHOD, '\treturn r.artifactType == ArtifactTypeNotation\n', '\treturn true\n'))),
 dict(name='p3-filter-two-predicates-one-dropped', expect='flagged(subject-equality)',
      **pred(sub(LOOP_PRED, PRED_CALL, '\t\tif !info.isNotation() {\n\t\t\tcontinue\n\t\t}\n'), PRED_TWO)),
 dict(name='p3-filter-two-predicates-or', expect='flagged(list/)',
      **pred(sub(LOOP_PRED, PRED_CALL, '\t\tif !info.refersTo(desc) && !info.isNotation() {\n\t\t\tcontinue\n\t\t}\n'), PRED_TWO),
      why='either test suffices'),
 dict(name='p3-filter-predicate-over-element-before-copy', expect='flagged(artifact-type)',
      **pred(sub(sub(LOOP_PRED_NODE, '\t\tif !isNotationNode(node) {\n\t\t\tcontinue\n\t\t}\n', ''), '\t\tnode.ArtifactType = info.artifactType\n', '\t\tif !isNotationNode(node) {\n\t\t\tcontinue\n\t\t}\n\t\tnode.ArtifactType = info.artifactType\n'), PRED_NODE),
      why='the element is tested while it still carries the predecessor\'s own artifact type'),
]

# -- class L: the lookup
LOOKUP_MT0 = '\tif sigManifestDesc.MediaType != artifactspec.MediaTypeArtifactManifest && sigManifestDesc.MediaType != ocispec.MediaTypeImageManifest {\n\t\treturn ocispec.Descriptor{}, fmt.Errorf("sigManifestDesc.MediaType requires %q or %q, got %q", artifactspec.MediaTypeArtifactManifest, ocispec.MediaTypeImageManifest, sigManifestDesc.MediaType)\n\t}\n'
LOOKUP_MT_SWITCH = '\tswitch sigManifestDesc.MediaType {\n\tcase artifactspec.MediaTypeArtifactManifest, ocispec.MediaTypeImageManifest:\n\tdefault:\n\t\treturn ocispec.Descriptor{}, fmt.Errorf("sigManifestDesc.MediaType requires %q or %q, got %q", artifactspec.MediaTypeArtifactManifest, ocispec.MediaTypeImageManifest, sigManifestDesc.MediaType)\n\t}\n'
LOOKUP_MCAP = '\tif sigManifestDesc.Size > maxManifestSizeLimit {\n\t\treturn ocispec.Descriptor{}, fmt.Errorf("signature manifest too large: %d bytes", sigManifestDesc.Size)\n\t}\n'
LOOKUP_DEC0 = '\t// OCI image manifest\n\tif sigManifestDesc.MediaType == ocispec.MediaTypeImageManifest {\n\t\tvar sigManifest ocispec.Manifest'
LOOKUP_DEC_SWITCH = '\tswitch sigManifestDesc.MediaType {\n\tcase ocispec.MediaTypeImageManifest:\n\t\tvar sigManifest ocispec.Manifest'
LOOKUP_ELSE0 = '\t} else { // OCI artifact manifest\n'
LOOKUP_ELSE_DEFAULT = '\tdefault: // OCI artifact manifest\n'
LOOKUP_RET0 = '\treturn signatureBlobs[0], nil\n}\n'
LOOKUP_RET_LOCAL_CAP = '\tsigBlobDesc := signatureBlobs[0]\n\tif sigBlobDesc.Size > maxBlobSizeLimit {\n\t\treturn ocispec.Descriptor{}, fmt.Errorf("signature blob too large: %d bytes", sigBlobDesc.Size)\n\t}\n\treturn sigBlobDesc, nil\n}\n'
LOOKUP_RET_LOCAL = '\tsigBlobDesc := signatureBlobs[0]\n\treturn sigBlobDesc, nil\n}\n'
LOOKUP_RET_VAR = '\tvar sigBlobDesc ocispec.Descriptor\n\tsigBlobDesc = signatureBlobs[0]\n\treturn sigBlobDesc, nil\n}\n'
# the lookup of the third batch: both `if`s as switches, the result parked in a local, the blob cap inside
LOOKUP_SW = sub(sub(sub(sub(LOOKUP0, LOOKUP_MT0, LOOKUP_MT_SWITCH), LOOKUP_DEC0, LOOKUP_DEC_SWITCH), LOOKUP_ELSE0, LOOKUP_ELSE_DEFAULT), LOOKUP_RET0, LOOKUP_RET_LOCAL_CAP)
FETCH_CALL0 = '\tsigBlobDesc, err := c.getSignatureBlobDesc(ctx, desc)\n'
FETCH_MT_UP = ('\tif desc.MediaType != artifactspec.MediaTypeArtifactManifest && desc.MediaType != ocispec.MediaTypeImageManifest {\n'
               '\t\treturn nil, ocispec.Descriptor{}, fmt.Errorf("sigManifestDesc.MediaType requires %q or %q, got %q", artifactspec.MediaTypeArtifactManifest, ocispec.MediaTypeImageManifest, desc.MediaType)\n\t}\n')
FETCH_MCAP_UP = '\tif desc.Size > maxManifestSizeLimit {\n\t\treturn nil, ocispec.Descriptor{}, fmt.Errorf("signature manifest too large: %d bytes", desc.Size)\n\t}\n'

VARIANTS += [
 dict(name='p3-lookup-switches-local-blob-cap-inside', file=R, expect='silent', find=LOOKUP0, replace=LOOKUP_SW, edits=[(R, BLOBCAP, '')]),
 dict(name='p3-lookup-result-in-local', file=R, expect='silent', find=LOOKUP_RET0, replace=LOOKUP_RET_LOCAL),
 dict(name='p3-lookup-result-in-declared-variable', file=R, expect='silent', find=LOOKUP_RET0, replace=LOOKUP_RET_VAR),
 dict(name='p3-lookup-blob-cap-in-both', file=R, expect='silent', find=LOOKUP_RET0, replace=LOOKUP_RET_LOCAL_CAP),
 dict(name='p3-lookup-manifest-cap-in-caller', file=R, expect='silent', find=LOOKUP_MCAP, replace='', edits=[(R, FETCH_CALL0, FETCH_MCAP_UP + FETCH_CALL0)]),
 dict(name='p3-lookup-media-type-test-in-caller', file=R, expect='silent', find=LOOKUP_MT0, replace='', edits=[(R, FETCH_CALL0, FETCH_MT_UP + FETCH_CALL0)]),
 # broken
 dict(name='p3-lookup-switches-local-blob-cap-nowhere', file=R, expect='flagged(cap-before-fetch)', find=LOOKUP0,
      replace=sub(LOOKUP_SW, LOOKUP_RET_LOCAL_CAP, LOOKUP_RET_LOCAL), edits=[(R, BLOBCAP, '')]),
 dict(name='p3-lookup-switches-local-blob-cap-on-manifest', file=R, expect='flagged(cap-before-fetch)', find=LOOKUP0,
      replace=sub(LOOKUP_SW, '\tif sigBlobDesc.Size > maxBlobSizeLimit {', '\tif sigManifestDesc.Size > maxBlobSizeLimit {'), edits=[(R, BLOBCAP, '')]),
 dict(name='p3-lookup-switches-local-blob-cap-after-return-path', file=R, expect='flagged(cap-before-fetch)', find=LOOKUP0,
      replace=sub(LOOKUP_SW, '\tif sigBlobDesc.Size > maxBlobSizeLimit {', '\tif sigBlobDesc.MediaType == "" && sigBlobDesc.Size > maxBlobSizeLimit {'), edits=[(R, BLOBCAP, '')],
      why='the cap is applied to some blobs only'),
 dict(name='p3-lookup-local-size-rewritten', file=R, expect='flagged(lookup/exactly-one-blob)', find=LOOKUP0,
      replace=sub(LOOKUP_SW, '\tsigBlobDesc := signatureBlobs[0]\n', '\tsigBlobDesc := signatureBlobs[0]\n\tif sigBlobDesc.Size > maxBlobSizeLimit {\n\t\tsigBlobDesc.Size = maxBlobSizeLimit\n\t}\n'), edits=[(R, BLOBCAP, '')],
      why='the local is edited before it is returned: the descriptor handed to the fetch is not the manifest\'s own'),
 dict(name='p3-lookup-local-replaced', file=R, expect='flagged(lookup/exactly-one-blob)', find=LOOKUP_RET0,
      replace='\tsigBlobDesc := signatureBlobs[0]\n\tif sigBlobDesc.MediaType == "" {\n\t\tsigBlobDesc = sigManifestDesc\n\t}\n\treturn sigBlobDesc, nil\n}\n'),
 dict(name='p3-lookup-local-of-last-element', file=R, expect='flagged(lookup/exactly-one-blob)', find=LOOKUP0,
      replace=sub(sub(LOOKUP_SW, '\tsigBlobDesc := signatureBlobs[0]\n', '\tsigBlobDesc := signatureBlobs[len(signatureBlobs)-1]\n'), '\tif len(signatureBlobs) != 1 {', '\tif len(signatureBlobs) == 0 {'), edits=[(R, BLOBCAP, '')]),
 dict(name='p3-lookup-switch-accepts-any-media-type', file=R, expect='flagged(lookup/media-type)', find=LOOKUP0,
      replace=sub(LOOKUP_SW, '\tcase artifactspec.MediaTypeArtifactManifest, ocispec.MediaTypeImageManifest:\n\tdefault:\n', '\tcase artifactspec.MediaTypeArtifactManifest, ocispec.MediaTypeImageManifest:\n\tcase "":\n'), edits=[(R, BLOBCAP, '')]),
 dict(name='p3-lookup-switch-decode-crossed', file=R, expect='flagged(lookup/decode-matches-media-type)', find=LOOKUP0,
      replace=sub(LOOKUP_SW, '\tcase ocispec.MediaTypeImageManifest:\n\t\tvar sigManifest ocispec.Manifest', '\tcase artifactspec.MediaTypeArtifactManifest:\n\t\tvar sigManifest ocispec.Manifest'), edits=[(R, BLOBCAP, '')]),
 dict(name='p3-lookup-manifest-cap-in-caller-after-lookup', file=R, expect='flagged(cap-before-fetch)', find=LOOKUP_MCAP, replace='',
      edits=[(R, FETCH_CALL0 + '\tif err != nil {\n\t\treturn nil, ocispec.Descriptor{}, err\n\t}\n', FETCH_CALL0 + '\tif err != nil {\n\t\treturn nil, ocispec.Descriptor{}, err\n\t}\n' + FETCH_MCAP_UP)],
      why='the manifest is capped after it has been fetched and decoded'),
 dict(name='p3-lookup-media-type-test-in-caller-one-type-only', file=R, expect='flagged(lookup/)', find=LOOKUP_MT0, replace='',
      edits=[(R, FETCH_CALL0, sub(FETCH_MT_UP, 'desc.MediaType != artifactspec.MediaTypeArtifactManifest && desc.MediaType != ocispec.MediaTypeImageManifest', 'desc.MediaType == ""') + FETCH_CALL0)]),
 dict(name='p3-lookup-media-type-test-in-caller-other-descriptor', file=R, expect='flagged(lookup/)', find=LOOKUP_MT0, replace='',
      edits=[(R, FETCH_CALL0 + '\tif err != nil {\n\t\treturn nil, ocispec.Descriptor{}, err\n\t}\n', FETCH_CALL0 + '\tif err != nil {\n\t\treturn nil, ocispec.Descriptor{}, err\n\t}\n' + FETCH_MT_UP.replace('desc.MediaType', 'sigBlobDesc.MediaType'))],
      why='the caller tests the media type of the blob, the manifest\'s is unconstrained'),
]

# -- class P, further members: the record built by a constructor function; the predicate as a closure
INFO_CTOR = r'''
func newReferrerInfo(subject *ocispec.Descriptor, artifactType string, annotations map[string]string) referrerInfo {
	return referrerInfo{subject: subject, artifactType: artifactType, annotations: annotations}
}
'''
INFO_HELPER_CTOR = (sub(sub(INFO_HELPER, '\t\treturn referrerInfo{\n\t\t\tsubject:      artifact.Subject,\n\t\t\tartifactType: artifact.ArtifactType,\n\t\t\tannotations:  artifact.Annotations,\n\t\t}, nil\n',
                            '\t\treturn newReferrerInfo(artifact.Subject, artifact.ArtifactType, artifact.Annotations), nil\n'),
                        '\treturn referrerInfo{\n\t\tsubject:      image.Subject,\n\t\tartifactType: image.Config.MediaType,\n\t\tannotations:  image.Annotations,\n\t}, nil\n',
                        '\treturn newReferrerInfo(image.Subject, image.Config.MediaType, image.Annotations), nil\n') + INFO_CTOR)
LOOP_PRED_CLOSURE = sub(sub(LOOP_PRED, '\tfor _, node := range predecessors {\n', '\tisSignature := func(r referrerInfo) bool {\n\t\tif r.subject == nil || !content.Equal(*r.subject, desc) {\n\t\t\treturn false\n\t\t}\n\t\treturn r.artifactType == ArtifactTypeNotation\n\t}\n\tfor _, node := range predecessors {\n'),
                        '!info.isSignatureOf(desc)', '!isSignature(info)')
VARIANTS += [
 dict(name='p3-info-constructor', expect='silent', **pred(LOOP_PRED, PRED_METHOD, info=INFO_HELPER_CTOR)),
 dict(name='p3-info-constructor-inline-filter', expect='silent', **pred(LOOP_INFO, info=INFO_HELPER_CTOR)),
 dict(name='p3-info-constructor-arguments-crossed', expect='flagged(list/image-manifest/artifact-type-origin)',
      **pred(LOOP_PRED, PRED_METHOD, info=sub(INFO_HELPER_CTOR, 'newReferrerInfo(image.Subject, image.Config.MediaType, image.Annotations)', 'newReferrerInfo(image.Subject, image.ArtifactType, image.Annotations)'))),
 dict(name='p3-info-constructor-drops-subject', expect='flagged(subject-equality)',
      **pred(LOOP_PRED, PRED_METHOD, info=sub(INFO_HELPER_CTOR, 'return referrerInfo{subject: subject, artifactType: artifactType, annotations: annotations}', 'return referrerInfo{subject: &ocispec.Descriptor{}, artifactType: artifactType, annotations: annotations}'))),
 dict(name='p3-filter-predicate-closure', expect='silent', **pred(LOOP_PRED_CLOSURE)),
]

# ---------------------------------------------------------------------------------------------------------------
# fourth pass. Class Q: the media-type test as a shared predicate that *returns* the comparison
# (`return m == A || m == B`), as a negated predicate, as membership in a read-only package-level set; class R: the
# double media-type dispatch of the lookup as ONE lookup in a read-only package-level decoder table.
P4_MTERR = '\t\treturn ocispec.Descriptor{}, fmt.Errorf("sigManifestDesc.MediaType requires %q or %q, got %q", artifactspec.MediaTypeArtifactManifest, ocispec.MediaTypeImageManifest, sigManifestDesc.MediaType)\n\t}\n'
P4_MT_PRED = '\tif !isManifestMediaType(sigManifestDesc.MediaType) {\n' + P4_MTERR
P4_PRED_OR = '\nfunc isManifestMediaType(mediaType string) bool {\n\treturn mediaType == artifactspec.MediaTypeArtifactManifest || mediaType == ocispec.MediaTypeImageManifest\n}\n'
P4_PRED_SWITCH = '\nfunc isManifestMediaType(mediaType string) bool {\n\tswitch mediaType {\n\tcase artifactspec.MediaTypeArtifactManifest, ocispec.MediaTypeImageManifest:\n\t\treturn true\n\t}\n\treturn false\n}\n'
P4_PRED_NEG = '\nfunc unsupportedMediaType(mediaType string) bool {\n\treturn mediaType != artifactspec.MediaTypeArtifactManifest && mediaType != ocispec.MediaTypeImageManifest\n}\n'
P4_PRED_NESTED = P4_PRED_OR + '\nfunc acceptable(d ocispec.Descriptor) bool {\n\treturn d.Size >= 0 && isManifestMediaType(d.MediaType)\n}\n'
P4_SET = '\nvar manifestMediaTypes = map[string]bool{\n\tartifactspec.MediaTypeArtifactManifest: true,\n\tocispec.MediaTypeImageManifest:         true,\n}\n'
P4_SET_STRUCT = '\nvar manifestMediaTypes = map[string]struct{}{\n\tartifactspec.MediaTypeArtifactManifest: {},\n\tocispec.MediaTypeImageManifest:         {},\n}\n'
P4_TAIL = '// uploadSignatureManifest uploads the signature manifest to the registry\n'

def p4lookup(guard, extra):
    return dict(file=R, find=LOOKUP_MT0, replace=guard, edits=[(R, P4_TAIL, extra.lstrip('\n') + '\n' + P4_TAIL)])

# the listing guarded by the predicate in front of the switch (the default arm then falls through to the shared tail)
P4_LIST_DEFAULT0 = '\t\tdefault:\n\t\t\tcontinue\n\t\t}\n'
P4_LIST_HEAD0 = '\tfor _, node := range predecessors {\n\t\tswitch node.MediaType {\n'
def p4list(guard, extra, lookup_guard=None):
    e = [(R, P4_LIST_DEFAULT0, '\t\tdefault:\n\t\t}\n'), (R, P4_TAIL, extra.lstrip('\n') + '\n' + P4_TAIL)]
    if lookup_guard is not None:
        e.append((R, LOOKUP_MT0, lookup_guard))
    return dict(file=R, find=P4_LIST_HEAD0, replace='\tfor _, node := range predecessors {\n' + guard + '\t\tswitch node.MediaType {\n', edits=e)

VARIANTS += [
 # Q, lookup side
 dict(name='p4-lookup-predicate-returns-disjunction', expect='silent', **p4lookup(P4_MT_PRED, P4_PRED_OR)),
 dict(name='p4-lookup-predicate-switch', expect='silent', **p4lookup(P4_MT_PRED, P4_PRED_SWITCH)),
 dict(name='p4-lookup-predicate-negated', expect='silent', **p4lookup('\tif unsupportedMediaType(sigManifestDesc.MediaType) {\n' + P4_MTERR, P4_PRED_NEG)),
 dict(name='p4-lookup-predicate-nested', expect='silent', **p4lookup('\tif !acceptable(sigManifestDesc) {\n' + P4_MTERR, P4_PRED_NESTED)),
 dict(name='p4-lookup-set-membership', expect='silent', **p4lookup('\tif !manifestMediaTypes[sigManifestDesc.MediaType] {\n' + P4_MTERR, P4_SET)),
 dict(name='p4-lookup-set-membership-comma-ok', expect='silent', **p4lookup('\tif _, known := manifestMediaTypes[sigManifestDesc.MediaType]; !known {\n' + P4_MTERR, P4_SET_STRUCT)),
 dict(name='p4-lookup-predicate-second-disjunct-wrong', expect='flagged(lookup/media-type)',
      **p4lookup(P4_MT_PRED, sub(P4_PRED_OR, '|| mediaType == ocispec.MediaTypeImageManifest', '|| mediaType != ""')),
      why='the returned comparison admits any non-empty media type'),
 dict(name='p4-lookup-predicate-first-disjunct-wrong', expect='flagged(lookup/media-type)',
      **p4lookup(P4_MT_PRED, sub(P4_PRED_OR, 'mediaType == artifactspec.MediaTypeArtifactManifest ||', 'mediaType == "" ||'))),
 dict(name='p4-lookup-predicate-always-true', expect='flagged(lookup/media-type)',
      **p4lookup(P4_MT_PRED, '\nfunc isManifestMediaType(mediaType string) bool {\n\treturn true\n}\n')),
 dict(name='p4-lookup-predicate-on-constant', expect='flagged(lookup/media-type)',
      **p4lookup(sub(P4_MT_PRED, 'isManifestMediaType(sigManifestDesc.MediaType)', 'isManifestMediaType(ocispec.MediaTypeImageManifest)'), P4_PRED_OR),
      why='the predicate is asked about a constant, not about the descriptor'),
 dict(name='p4-lookup-predicate-negated-wrong', expect='flagged(lookup/media-type)',
      **p4lookup('\tif unsupportedMediaType(sigManifestDesc.MediaType) {\n' + P4_MTERR, sub(P4_PRED_NEG, '&& mediaType != ocispec.MediaTypeImageManifest', '&& mediaType == ""'))),
 dict(name='p4-lookup-set-third-key', expect='flagged(lookup/media-type)',
      **p4lookup('\tif !manifestMediaTypes[sigManifestDesc.MediaType] {\n' + P4_MTERR, sub(P4_SET, '\tocispec.MediaTypeImageManifest:         true,\n', '\tocispec.MediaTypeImageManifest:         true,\n\tocispec.MediaTypeImageIndex:            true,\n'))),
 dict(name='p4-lookup-set-written-elsewhere', expect='flagged(lookup/media-type)',
      **p4lookup('\tif !manifestMediaTypes[sigManifestDesc.MediaType] {\n' + P4_MTERR, P4_SET + '\n// AllowMediaType registers a further manifest media type.\nfunc AllowMediaType(mediaType string) {\n\tmanifestMediaTypes[mediaType] = true\n}\n'),
      why='the set is not a constant of the program: membership says nothing about the two constants'),
 dict(name='p4-lookup-set-absence-tested', expect='flagged(lookup/media-type)',
      **p4lookup('\tif manifestMediaTypes[sigManifestDesc.MediaType] {\n' + P4_MTERR, P4_SET)),
 # Q, listing side
 dict(name='p4-list-guard-predicate-before-switch', expect='silent', **p4list('\t\tif !isManifestMediaType(node.MediaType) {\n\t\t\tcontinue\n\t\t}\n', P4_PRED_OR)),
 dict(name='p4-list-guard-predicate-shared-with-lookup', expect='silent', **p4list('\t\tif !isManifestMediaType(node.MediaType) {\n\t\t\tcontinue\n\t\t}\n', P4_PRED_OR, P4_MT_PRED)),
 dict(name='p4-list-guard-set-membership', expect='silent', **p4list('\t\tif !manifestMediaTypes[node.MediaType] {\n\t\t\tcontinue\n\t\t}\n', P4_SET)),
 dict(name='p4-list-guard-predicate-negated', expect='silent', **p4list('\t\tif unsupportedMediaType(node.MediaType) {\n\t\t\tcontinue\n\t\t}\n', P4_PRED_NEG)),
 dict(name='p4-list-guard-predicate-wrong', expect='flagged(list/only-manifest-media-types)',
      **p4list('\t\tif !isManifestMediaType(node.MediaType) {\n\t\t\tcontinue\n\t\t}\n', sub(P4_PRED_OR, '|| mediaType == ocispec.MediaTypeImageManifest', '|| mediaType != ""'))),
 dict(name='p4-list-guard-predicate-on-requested-descriptor', expect='flagged(list/only-manifest-media-types)',
      **p4list('\t\tif !isManifestMediaType(desc.MediaType) {\n\t\t\tcontinue\n\t\t}\n', P4_PRED_OR),
      why='the predicate is asked about the subject, not about the referrer'),
 dict(name='p4-list-guard-set-third-key', expect='flagged(list/only-manifest-media-types)',
      **p4list('\t\tif !manifestMediaTypes[node.MediaType] {\n\t\t\tcontinue\n\t\t}\n', sub(P4_SET, '\tocispec.MediaTypeImageManifest:         true,\n', '\tocispec.MediaTypeImageManifest:         true,\n\tocispec.MediaTypeImageIndex:            true,\n'))),
 dict(name='p4-list-guard-missing', expect='flagged(list/only-manifest-media-types)', **p4list('', P4_PRED_OR)),
]

# R: decoder table
P4_TABLE = r'''
var signatureBlobsDecoders = map[string]func(manifestJSON []byte) ([]ocispec.Descriptor, error){
	ocispec.MediaTypeImageManifest: func(manifestJSON []byte) ([]ocispec.Descriptor, error) {
		var sigManifest ocispec.Manifest
		if err := json.Unmarshal(manifestJSON, &sigManifest); err != nil {
			return nil, err
		}
		return sigManifest.Layers, nil
	},
	artifactspec.MediaTypeArtifactManifest: func(manifestJSON []byte) ([]ocispec.Descriptor, error) {
		var sigManifest artifactspec.Artifact
		if err := json.Unmarshal(manifestJSON, &sigManifest); err != nil {
			return nil, err
		}
		return sigManifest.Blobs, nil
	},
}

'''
P4_TABLE_NAMED = r'''
var signatureBlobsDecoders = map[string]func([]byte) ([]ocispec.Descriptor, error){
	ocispec.MediaTypeImageManifest:         imageManifestLayers,
	artifactspec.MediaTypeArtifactManifest: artifactManifestBlobs,
}

func imageManifestLayers(manifestJSON []byte) ([]ocispec.Descriptor, error) {
	var sigManifest ocispec.Manifest
	if err := json.Unmarshal(manifestJSON, &sigManifest); err != nil {
		return nil, err
	}
	return sigManifest.Layers, nil
}

func artifactManifestBlobs(manifestJSON []byte) ([]ocispec.Descriptor, error) {
	var sigManifest artifactspec.Artifact
	if err := json.Unmarshal(manifestJSON, &sigManifest); err != nil {
		return nil, err
	}
	return sigManifest.Blobs, nil
}

'''
P4_LOOKUP_TABLE = r'''func (c *repositoryClient) getSignatureBlobDesc(ctx context.Context, sigManifestDesc ocispec.Descriptor) (ocispec.Descriptor, error) {
	decodeSignatureBlobs, ok := signatureBlobsDecoders[sigManifestDesc.MediaType]
	if !ok {
		return ocispec.Descriptor{}, fmt.Errorf("sigManifestDesc.MediaType requires %q or %q, got %q", artifactspec.MediaTypeArtifactManifest, ocispec.MediaTypeImageManifest, sigManifestDesc.MediaType)
	}
	if sigManifestDesc.Size > maxManifestSizeLimit {
		return ocispec.Descriptor{}, fmt.Errorf("signature manifest too large: %d bytes", sigManifestDesc.Size)
	}

	// get the signature manifest from sigManifestDesc
	var fetcher content.Fetcher = c.GraphTarget
	if repo, ok := c.GraphTarget.(registry.Repository); ok {
		fetcher = repo.Manifests()
	}
	manifestJSON, err := content.FetchAll(ctx, fetcher, sigManifestDesc)
	if err != nil {
		return ocispec.Descriptor{}, err
	}

	// get the signature blob descriptor from signature manifest
	signatureBlobs, err := decodeSignatureBlobs(manifestJSON)
	if err != nil {
		return ocispec.Descriptor{}, err
	}
	if len(signatureBlobs) != 1 {
		return ocispec.Descriptor{}, fmt.Errorf("signature manifest requries exactly one signature envelope blob, got %d", len(signatureBlobs))
	}
	return signatureBlobs[0], nil
}

'''
P4_LOOKUP_TABLE_NIL = sub(P4_LOOKUP_TABLE, '\tdecodeSignatureBlobs, ok := signatureBlobsDecoders[sigManifestDesc.MediaType]\n\tif !ok {\n', '\tdecodeSignatureBlobs := signatureBlobsDecoders[sigManifestDesc.MediaType]\n\tif decodeSignatureBlobs == nil {\n')
# the table consulted after the fetch, where the old if/else stood; the guard in front stays as it was
P4_LOOKUP_TABLE_LATE = sub(sub(P4_LOOKUP_TABLE, '\tdecodeSignatureBlobs, ok := signatureBlobsDecoders[sigManifestDesc.MediaType]\n\tif !ok {\n', '\tif sigManifestDesc.MediaType != artifactspec.MediaTypeArtifactManifest && sigManifestDesc.MediaType != ocispec.MediaTypeImageManifest {\n'),
                           '\tsignatureBlobs, err := decodeSignatureBlobs(manifestJSON)\n', '\tsignatureBlobs, err := signatureBlobsDecoders[sigManifestDesc.MediaType](manifestJSON)\n')
def p4table(lookup, table):
    return dict(file=R, find=LOOKUP0, replace=table.lstrip('\n') + lookup)

VARIANTS += [
 dict(name='p4-decoder-table', expect='silent', **p4table(P4_LOOKUP_TABLE, P4_TABLE)),
 dict(name='p4-decoder-table-nil-test', expect='silent', **p4table(P4_LOOKUP_TABLE_NIL, P4_TABLE)),
 dict(name='p4-decoder-table-named-functions', expect='silent', **p4table(P4_LOOKUP_TABLE, P4_TABLE_NAMED)),
 dict(name='p4-decoder-table-consulted-after-fetch', expect='silent', **p4table(P4_LOOKUP_TABLE_LATE, P4_TABLE_NAMED)),
 dict(name='p4-decoder-table-crossed', expect='flagged(lookup/decode-matches-media-type)',
      **p4table(P4_LOOKUP_TABLE, sub(sub(sub(P4_TABLE_NAMED, 'ocispec.MediaTypeImageManifest:         imageManifestLayers', 'ocispec.MediaTypeImageManifest:         @@'), 'artifactspec.MediaTypeArtifactManifest: artifactManifestBlobs', 'artifactspec.MediaTypeArtifactManifest: imageManifestLayers'), '@@', 'artifactManifestBlobs'))),
 dict(name='p4-decoder-table-third-key', expect='flagged(lookup/media-type)',
      **p4table(P4_LOOKUP_TABLE, sub(P4_TABLE_NAMED, '\tartifactspec.MediaTypeArtifactManifest: artifactManifestBlobs,\n', '\tartifactspec.MediaTypeArtifactManifest: artifactManifestBlobs,\n\tocispec.MediaTypeImageIndex:            imageManifestLayers,\n'))),
 dict(name='p4-decoder-table-registrable', expect='flagged(lookup/)',
      **p4table(P4_LOOKUP_TABLE, P4_TABLE + '// RegisterSignatureBlobsDecoder adds a decoder.\nfunc RegisterSignatureBlobsDecoder(mediaType string, f func([]byte) ([]ocispec.Descriptor, error)) {\n\tsignatureBlobsDecoders[mediaType] = f\n}\n\n'),
      why='the table can be extended at run time: neither the accepted media types nor the decoders are known'),
 dict(name='p4-decoder-table-decode-error-ignored', expect='flagged(lookup/decode-error)',
      **p4table(P4_LOOKUP_TABLE, sub(P4_TABLE, '\t\tvar sigManifest artifactspec.Artifact\n\t\tif err := json.Unmarshal(manifestJSON, &sigManifest); err != nil {\n\t\t\treturn nil, err\n\t\t}\n', '\t\tvar sigManifest artifactspec.Artifact\n\t\t_ = json.Unmarshal(manifestJSON, &sigManifest)\n'))),
 dict(name='p4-decoder-table-caller-ignores-error', expect='flagged(lookup/decode-error)',
      **p4table(sub(P4_LOOKUP_TABLE, '\tsignatureBlobs, err := decodeSignatureBlobs(manifestJSON)\n\tif err != nil {\n\t\treturn ocispec.Descriptor{}, err\n\t}\n', '\tsignatureBlobs, _ := decodeSignatureBlobs(manifestJSON)\n'), P4_TABLE)),
 dict(name='p4-decoder-table-key-is-constant', expect='flagged(lookup/)',
      **p4table(sub(P4_LOOKUP_TABLE, 'signatureBlobsDecoders[sigManifestDesc.MediaType]', 'signatureBlobsDecoders[ocispec.MediaTypeImageManifest]'), P4_TABLE),
      why='every manifest is decoded as an image manifest and no media type is refused'),
 dict(name='p4-decoder-table-late-guard-dropped', expect='flagged(lookup/media-type)',
      **p4table(sub(P4_LOOKUP_TABLE_LATE, LOOKUP_MT0, ''), P4_TABLE_NAMED),
      why='no media-type test before the fetch: an unknown media type is fetched and then panics on the nil decoder'),
 dict(name='p4-decoder-table-wrong-list', expect='flagged(lookup/exactly-one-blob)',
      **p4table(P4_LOOKUP_TABLE, sub(P4_TABLE, '\t\treturn sigManifest.Layers, nil\n', '\t\treturn []ocispec.Descriptor{sigManifest.Config}, nil\n'))),
]

# Q on the listing side, whole shape: arms merged, the type-specific decode in a helper keyed by a media-type argument
# that returns a small record, guard clauses, the media-type guard a shared predicate
P4_LOOP_MERGED = r'''	for _, node := range predecessors {
		if !isManifestMediaType(node.MediaType) {
			continue
		}
		if node.Size > maxManifestSizeLimit {
			return nil, fmt.Errorf("referrer node too large: %d bytes", node.Size)
		}
		fetched, err := content.FetchAll(ctx, target, node)
		if err != nil {
			return nil, err
		}
		manifest, err := parseReferrerManifest(node.MediaType, fetched)
		if err != nil {
			return nil, err
		}
		if manifest.subject == nil || !content.Equal(*manifest.subject, desc) {
			continue
		}
		// only keep nodes of "application/vnd.cncf.notary.signature"
		if manifest.artifactType != ArtifactTypeNotation {
			continue
		}
		node.ArtifactType = manifest.artifactType
		node.Annotations = manifest.annotations
		results = append(results, node)
	}
'''
P4_PARSE = r'''
type referrerManifest struct {
	subject      *ocispec.Descriptor
	artifactType string
	annotations  map[string]string
}

func parseReferrerManifest(mediaType string, manifestJSON []byte) (referrerManifest, error) {
	if mediaType == ocispec.MediaTypeImageManifest {
		var image ocispec.Manifest
		if err := json.Unmarshal(manifestJSON, &image); err != nil {
			return referrerManifest{}, err
		}
		return referrerManifest{
			subject:      image.Subject,
			artifactType: image.Config.MediaType,
			annotations:  image.Annotations,
		}, nil
	}
	// OCI artifact manifest
	var artifact artifactspec.Artifact
	if err := json.Unmarshal(manifestJSON, &artifact); err != nil {
		return referrerManifest{}, err
	}
	return referrerManifest{
		subject:      artifact.Subject,
		artifactType: artifact.ArtifactType,
		annotations:  artifact.Annotations,
	}, nil
}
'''
def p4merged(loop, helpers):
    return dict(file=R, find=LOOP0, replace=loop, edits=[tail(helpers.lstrip('\n'))])

VARIANTS += [
 dict(name='p4-list-merged-arms-predicate-guard', expect='silent', **p4merged(P4_LOOP_MERGED, P4_PARSE + P4_PRED_OR)),
 dict(name='p4-list-merged-arms-set-guard', expect='silent',
      **p4merged(sub(P4_LOOP_MERGED, '!isManifestMediaType(node.MediaType)', '!manifestMediaTypes[node.MediaType]'), P4_PARSE + P4_SET)),
 dict(name='p4-list-merged-arms-inline-guard', expect='silent',
      **p4merged(sub(P4_LOOP_MERGED, '!isManifestMediaType(node.MediaType)', 'node.MediaType != artifactspec.MediaTypeArtifactManifest && node.MediaType != ocispec.MediaTypeImageManifest'), P4_PARSE)),
 dict(name='p4-list-merged-arms-predicate-wrong', expect='flagged(list/only-manifest-media-types)',
      **p4merged(P4_LOOP_MERGED, P4_PARSE + sub(P4_PRED_OR, '|| mediaType == ocispec.MediaTypeImageManifest', '|| mediaType != ""')),
      why='any non-empty media type is decoded as an artifact manifest and can be listed'),
 dict(name='p4-list-merged-arms-parse-keyed-by-subject', expect='flagged(list/)',
      **p4merged(sub(P4_LOOP_MERGED, 'parseReferrerManifest(node.MediaType, fetched)', 'parseReferrerManifest(desc.MediaType, fetched)'), P4_PARSE + P4_PRED_OR),
      why='the manifest is decoded by the media type of the subject, not by its own'),
 dict(name='p4-list-merged-arms-parse-crossed', expect='flagged(list/)',
      **p4merged(P4_LOOP_MERGED, sub(P4_PARSE, '\tif mediaType == ocispec.MediaTypeImageManifest {\n', '\tif mediaType != ocispec.MediaTypeImageManifest {\n') + P4_PRED_OR)),
 dict(name='p4-list-merged-arms-type-test-after-append', expect='flagged(artifact-type)',
      **p4merged(sub(P4_LOOP_MERGED, '\t\tif manifest.artifactType != ArtifactTypeNotation {\n\t\t\tcontinue\n\t\t}\n', ''), P4_PARSE + P4_PRED_OR)),
]

# ---- round 4, seed C19-6: the four "test the declared size, then FetchAll" copies folded into one helper that is
# given the cap. The cap of a fetch is the constant the comparison guarding it really uses: decided per call site of
# the helper when the bound is a parameter (cap-before-fetch/<caller>#k, K = the constant passed), and compared with
# the cap of the reference tree for what the bytes are used for (cap-class/<caller>#k: manifest 4 MiB, blob 32 MiB).
S6_BLOBFETCH0 = '\tsigBlob, err := content.FetchAll(ctx, fetcher, sigBlobDesc)\n'
S6_MFETCH0 = '\tmanifestJSON, err := content.FetchAll(ctx, fetcher, sigManifestDesc)\n'
S6_TEST = '\tif desc.Size > limit {\n'
S6_HELPER = r'''// fetchLimited fetches the content described by desc from fetcher. Content
// whose declared size exceeds limit is refused before anything is read, so
// that an oversized manifest or blob is never buffered in memory.
func fetchLimited(ctx context.Context, fetcher content.Fetcher, desc ocispec.Descriptor, limit int64, what string) ([]byte, error) {
	if desc.Size > limit {
		return nil, fmt.Errorf("%s too large: %d bytes (limit: %d bytes)", what, desc.Size, limit)
	}
	return content.FetchAll(ctx, fetcher, desc)
}
'''
S6_SIG0 = 'func fetchLimited(ctx context.Context, fetcher content.Fetcher, desc ocispec.Descriptor, limit int64, what string) ([]byte, error) {\n'

def s6(helper, blob, manifest, node, extra=()):
    """the refactoring of the seed: helper appended, the four sites rewritten to the given call expressions"""
    return dict(file=R, all=True, find=CAPFETCH, replace='\t\t\tfetched, err := ' + node + '\n',
                edits=[(R, BLOBCAP, ''), (R, S6_BLOBFETCH0, '\tsigBlob, err := ' + blob + '\n'),
                       (R, LOOKUP_MCAP, ''), (R, S6_MFETCH0, '\tmanifestJSON, err := ' + manifest + '\n'), tail(helper)] + list(extra))

S6_B = 'fetchLimited(ctx, fetcher, sigBlobDesc, maxBlobSizeLimit, "signature blob")'
S6_M = 'fetchLimited(ctx, fetcher, sigManifestDesc, maxManifestSizeLimit, "signature manifest")'
S6_N = 'fetchLimited(ctx, target, node, maxManifestSizeLimit, "referrer node")'
# the cap first / the parameters in another order
S6_HELPER_CAP_FIRST = sub(S6_HELPER, S6_SIG0, 'func fetchLimited(limit int64, ctx context.Context, fetcher content.Fetcher, desc ocispec.Descriptor, what string) ([]byte, error) {\n')
S6_HELPER_REORDERED = sub(S6_HELPER, S6_SIG0, 'func fetchLimited(ctx context.Context, what string, desc ocispec.Descriptor, limit int64, fetcher content.Fetcher) ([]byte, error) {\n')
S6_B1 = 'fetchLimited(maxBlobSizeLimit, ctx, fetcher, sigBlobDesc, "signature blob")'
S6_M1 = 'fetchLimited(maxManifestSizeLimit, ctx, fetcher, sigManifestDesc, "signature manifest")'
S6_N1 = 'fetchLimited(maxManifestSizeLimit, ctx, target, node, "referrer node")'
S6_B2 = 'fetchLimited(ctx, "signature blob", sigBlobDesc, maxBlobSizeLimit, fetcher)'
S6_M2 = 'fetchLimited(ctx, "signature manifest", sigManifestDesc, maxManifestSizeLimit, fetcher)'
S6_N2 = 'fetchLimited(ctx, "referrer node", node, maxManifestSizeLimit, target)'
# two helpers, each with its own constant
S6_TWO = r'''// fetchManifest fetches a manifest of at most maxManifestSizeLimit bytes.
func fetchManifest(ctx context.Context, fetcher content.Fetcher, desc ocispec.Descriptor, what string) ([]byte, error) {
	if desc.Size > maxManifestSizeLimit {
		return nil, fmt.Errorf("%s too large: %d bytes", what, desc.Size)
	}
	return content.FetchAll(ctx, fetcher, desc)
}

// fetchBlob fetches a signature envelope of at most maxBlobSizeLimit bytes.
func fetchBlob(ctx context.Context, fetcher content.Fetcher, desc ocispec.Descriptor) ([]byte, error) {
	if desc.Size > maxBlobSizeLimit {
		return nil, fmt.Errorf("signature blob too large: %d bytes", desc.Size)
	}
	return content.FetchAll(ctx, fetcher, desc)
}
'''
S6_BT = 'fetchBlob(ctx, fetcher, sigBlobDesc)'
S6_MT = 'fetchManifest(ctx, fetcher, sigManifestDesc, "signature manifest")'
S6_NT = 'fetchManifest(ctx, target, node, "referrer node")'
# the cap handed on through one more wrapper
S6_WRAP = S6_HELPER + r'''
// fetchManifestLimited fetches a manifest under the manifest size limit.
func fetchManifestLimited(ctx context.Context, fetcher content.Fetcher, desc ocispec.Descriptor, what string) ([]byte, error) {
	return fetchLimited(ctx, fetcher, desc, maxManifestSizeLimit, what)
}
'''
S6_MW = 'fetchManifestLimited(ctx, fetcher, sigManifestDesc, "signature manifest")'
S6_NW = 'fetchManifestLimited(ctx, target, node, "referrer node")'
# ... the wrapper handing its own parameter on
S6_WRAP2 = S6_HELPER + r'''
// fetchNamed fetches content under the given limit and wraps the error.
func fetchNamed(ctx context.Context, fetcher content.Fetcher, desc ocispec.Descriptor, max int64, what string) ([]byte, error) {
	b, err := fetchLimited(ctx, fetcher, desc, max, what)
	if err != nil {
		return nil, fmt.Errorf("failed to fetch %s: %w", what, err)
	}
	return b, nil
}
'''
# the test in a helper of its own, called by the fetching helper
S6_HELPER_TEST_FN = sub(S6_HELPER, '\tif desc.Size > limit {\n\t\treturn nil, fmt.Errorf("%s too large: %d bytes (limit: %d bytes)", what, desc.Size, limit)\n\t}\n',
                        '\tif err := checkSize(desc, limit, what); err != nil {\n\t\treturn nil, err\n\t}\n') + r'''
func checkSize(desc ocispec.Descriptor, limit int64, what string) error {
	if desc.Size > limit {
		return fmt.Errorf("%s too large: %d bytes (limit: %d bytes)", what, desc.Size, limit)
	}
	return nil
}
'''
# the size measured on a descriptor given separately
S6_HELPER_SIZED = sub(sub(S6_HELPER, S6_SIG0, 'func fetchLimited(ctx context.Context, fetcher content.Fetcher, desc, sized ocispec.Descriptor, limit int64, what string) ([]byte, error) {\n'),
                      S6_TEST, '\tif sized.Size > limit {\n')
S6_BS = 'fetchLimited(ctx, fetcher, sigBlobDesc, sigBlobDesc, maxBlobSizeLimit, "signature blob")'
S6_MS = 'fetchLimited(ctx, fetcher, sigManifestDesc, sigManifestDesc, maxManifestSizeLimit, "signature manifest")'
S6_NS = 'fetchLimited(ctx, target, node, node, maxManifestSizeLimit, "referrer node")'

VARIANTS += [
 # behaviour-preserving
 dict(name='seed6-twin-fetch-limited', expect='silent', **s6(S6_HELPER, S6_B, S6_M, S6_N),
      why='the benign twin of seed C19-6: the helper compares against the cap it is given, every call site passes the cap of the reference tree'),
 dict(name='seed6-twin-cap-parameter-first', expect='silent', **s6(S6_HELPER_CAP_FIRST, S6_B1, S6_M1, S6_N1)),
 dict(name='seed6-twin-parameters-reordered', expect='silent', **s6(S6_HELPER_REORDERED, S6_B2, S6_M2, S6_N2)),
 dict(name='seed6-twin-two-helpers-own-constants', expect='silent', **s6(S6_TWO, S6_BT, S6_MT, S6_NT)),
 dict(name='seed6-twin-cap-through-wrapper', expect='silent', **s6(S6_WRAP, S6_B, S6_MW, S6_NW)),
 dict(name='seed6-twin-cap-handed-on-by-wrapper', expect='silent',
      **s6(S6_WRAP2, S6_B.replace('fetchLimited(', 'fetchNamed('), S6_M.replace('fetchLimited(', 'fetchNamed('), S6_N.replace('fetchLimited(', 'fetchNamed('))),
 dict(name='seed6-twin-bound-on-the-left', expect='silent', **s6(sub(S6_HELPER, S6_TEST, '\tif limit < desc.Size {\n'), S6_B, S6_M, S6_N)),
 dict(name='seed6-twin-strict-comparison', expect='silent', **s6(sub(S6_HELPER, S6_TEST, '\tif desc.Size >= limit {\n'), S6_B, S6_M, S6_N),
      why='`>=` refuses one byte earlier: a cap of K-1, still within the cap of the reference tree'),
 dict(name='seed6-twin-test-in-own-helper', expect='silent', **s6(S6_HELPER_TEST_FN, S6_B, S6_M, S6_N)),
 dict(name='seed6-twin-int-cap-converted', expect='silent',
      **s6(sub(sub(S6_HELPER, 'limit int64, what string)', 'limit int, what string)'), S6_TEST, '\tif desc.Size > int64(limit) {\n'), S6_B, S6_M, S6_N)),
 dict(name='seed6-twin-size-of-separate-descriptor-same-argument', expect='silent', **s6(S6_HELPER_SIZED, S6_BS, S6_MS, S6_NS),
      why='the descriptor that is measured is a parameter of its own, but every call site passes the fetched descriptor for it'),
 dict(name='seed6-twin-optional-limit-always-given', expect='silent', **s6(sub(S6_HELPER, S6_TEST, '\tif limit > 0 && desc.Size > limit {\n'), S6_B, S6_M, S6_N),
      why='the helper would skip the test for a non-positive limit, but every call site passes a positive constant: with that argument the skipping branch is not a path of the call'),
 dict(name='seed6-twin-literal-caps', expect='silent', **s6(S6_HELPER, S6_B.replace('maxBlobSizeLimit', '32<<20'), S6_M.replace('maxManifestSizeLimit', '4<<20'), S6_N.replace('maxManifestSizeLimit', '4*1024*1024')),
      why='the numbers are pinned, not the names of the constants'),
 # the seed and its relatives
 dict(name='seed6-fetch-limited-compares-blob-cap', expect='flagged(cap-class)', **s6(sub(S6_HELPER, S6_TEST, '\tif desc.Size > maxBlobSizeLimit {\n'), S6_B, S6_M, S6_N),
      why='seed C19-6: the cap parameter only appears in the error text; all three manifest fetches run under the 32 MiB blob cap'),
 dict(name='seed6-cap-parameter-first-compares-blob-cap', expect='flagged(cap-class)',
      **s6(sub(S6_HELPER_CAP_FIRST, S6_TEST, '\tif desc.Size > maxBlobSizeLimit {\n'), S6_B1, S6_M1, S6_N1)),
 dict(name='seed6-test-in-own-helper-compares-blob-cap', expect='flagged(cap-class)',
      **s6(sub(S6_HELPER_TEST_FN, S6_TEST, '\tif desc.Size > maxBlobSizeLimit {\n'), S6_B, S6_M, S6_N)),
 dict(name='seed6-lookup-site-passes-blob-cap', expect='flagged(cap-class)', **s6(S6_HELPER, S6_B, S6_M.replace('maxManifestSizeLimit', 'maxBlobSizeLimit'), S6_N),
      why='the helper is right, one call site hands it the wrong constant: the signature manifest is fetched under the blob cap'),
 dict(name='seed6-listing-site-passes-raised-literal', expect='flagged(cap-class)', **s6(S6_HELPER, S6_B, S6_M, S6_N.replace('maxManifestSizeLimit', '16<<20'))),
 dict(name='seed6-blob-site-passes-raised-cap', expect='flagged(cap-class)', **s6(S6_HELPER, S6_B.replace('maxBlobSizeLimit', '4*maxBlobSizeLimit'), S6_M, S6_N)),
 dict(name='seed6-listing-site-passes-zero', expect='flagged(cap-before-fetch)', **s6(S6_HELPER, S6_B, S6_M, S6_N.replace('maxManifestSizeLimit', '0')),
      why='the bound passed at a call site is not a positive constant'),
 dict(name='seed6-nonpositive-cap-disables-and-site-passes-negative', expect='flagged(cap-before-fetch)',
      **s6(sub(S6_HELPER, S6_TEST, '\tif limit > 0 && desc.Size > limit {\n'), S6_B, S6_M.replace('maxManifestSizeLimit', '-1'), S6_N),
      why='a non-positive limit switches the test off, and the lookup passes one'),
 dict(name='seed6-two-helpers-lookup-uses-blob-helper', expect='flagged(cap-class)', **s6(S6_TWO, S6_BT, 'fetchBlob(ctx, fetcher, sigManifestDesc)', S6_NT)),
 dict(name='seed6-wrapper-hands-on-blob-cap', expect='flagged(cap-class)', **s6(sub(S6_WRAP, 'desc, maxManifestSizeLimit, what)', 'desc, maxBlobSizeLimit, what)'), S6_B, S6_MW, S6_NW)),
 dict(name='seed6-size-of-another-descriptor', expect='flagged(cap-before-fetch)', **s6(S6_HELPER_SIZED, S6_BS.replace('sigBlobDesc, sigBlobDesc', 'sigBlobDesc, desc'), S6_MS, S6_NS),
      why='the size that is compared is the manifest descriptor\'s, the content that is fetched is the blob\'s'),
 dict(name='seed6-helper-fetches-before-it-tests', expect='flagged(cap-before-fetch)',
      **s6(sub(S6_HELPER, '\tif desc.Size > limit {\n\t\treturn nil, fmt.Errorf("%s too large: %d bytes (limit: %d bytes)", what, desc.Size, limit)\n\t}\n\treturn content.FetchAll(ctx, fetcher, desc)\n',
               '\tb, err := content.FetchAll(ctx, fetcher, desc)\n\tif err != nil {\n\t\treturn nil, err\n\t}\n\tif desc.Size > limit {\n\t\treturn nil, fmt.Errorf("%s too large: %d bytes (limit: %d bytes)", what, desc.Size, limit)\n\t}\n\treturn b, nil\n'), S6_B, S6_M, S6_N)),
 # the same slips without any helper: a raised constant at the site itself
 dict(name='seed6-inline-lookup-tests-blob-cap', file=R, expect='flagged(cap-class)', find='\tif sigManifestDesc.Size > maxManifestSizeLimit {', replace='\tif sigManifestDesc.Size > maxBlobSizeLimit {'),
 dict(name='seed6-inline-manifest-cap-constant-raised', file=R, expect='flagged(cap-class)', find='\tmaxManifestSizeLimit = 4 * 1024 * 1024  // 4 MiB', replace='\tmaxManifestSizeLimit = 8 * 1024 * 1024  // 8 MiB'),
]

# ---- round 5 (held-out batch): class R on the lookup side — the decoded layer/blob list travels inside a record.
# One manifest decoder returning a small struct (subject, artifact type, annotations, blobs) is shared by the lookup
# and the listing; the lookup reads the list out of the record. Members of the class: record by value / by pointer /
# assembled by a constructor function / filled in by field assignments on the two branches of the lookup itself /
# copied to another local / the field read twice. Broken counterparts: decode crossed, decode error dropped, helper
# error dropped, a list that is not the decoded one put into the field, another field read, the field overwritten
# after the decode, the record handed to a function that rewrites it.
P5_BLOCK0 = ('\tvar signatureBlobs []ocispec.Descriptor\n' + LOOKUP_DEC0 + '\n\t\tif err := json.Unmarshal(manifestJSON, &sigManifest); err != nil {\n\t\t\treturn ocispec.Descriptor{}, err\n\t\t}\n\t\tsignatureBlobs = sigManifest.Layers\n'
             + LOOKUP_ELSE0 + '\t\tvar sigManifest artifactspec.Artifact\n\t\tif err := json.Unmarshal(manifestJSON, &sigManifest); err != nil {\n\t\t\treturn ocispec.Descriptor{}, err\n\t\t}\n\t\tsignatureBlobs = sigManifest.Blobs\n\t}\n')
P5_CALL = '\tsigManifest, err := parseManifest(sigManifestDesc.MediaType, manifestJSON)\n\tif err != nil {\n\t\treturn ocispec.Descriptor{}, err\n\t}\n'
P5_READ = '\tsignatureBlobs := sigManifest.blobs\n'
P5_IMG_LIT = '\t\treturn manifestView{\n\t\t\tsubject:      image.Subject,\n\t\t\tartifactType: image.Config.MediaType,\n\t\t\tannotations:  image.Annotations,\n\t\t\tblobs:        image.Layers,\n\t\t}, nil\n'
P5_ART_LIT = '\treturn manifestView{\n\t\tsubject:      artifact.Subject,\n\t\tartifactType: artifact.ArtifactType,\n\t\tannotations:  artifact.Annotations,\n\t\tblobs:        artifact.Blobs,\n\t}, nil\n'
P5_ART_DEC = '\tvar artifact artifactspec.Artifact\n\tif err := json.Unmarshal(manifestJSON, &artifact); err != nil {\n\t\treturn manifestView{}, err\n\t}\n'
P5_VIEW = r'''
// manifestView is the part of a signature manifest candidate that notation
// looks at, independent of the manifest flavour it was decoded from.
type manifestView struct {
	subject      *ocispec.Descriptor
	artifactType string
	annotations  map[string]string
	blobs        []ocispec.Descriptor
}

func parseManifest(mediaType string, manifestJSON []byte) (manifestView, error) {
	// OCI image manifest
	if mediaType == ocispec.MediaTypeImageManifest {
		var image ocispec.Manifest
		if err := json.Unmarshal(manifestJSON, &image); err != nil {
			return manifestView{}, err
		}
''' + P5_IMG_LIT + '''	}

	// OCI artifact manifest
''' + P5_ART_DEC + P5_ART_LIT + '''}
'''
P5_VIEW_PTR = (P5_VIEW.replace('(manifestView, error)', '(*manifestView, error)').replace('return manifestView{}, err', 'return nil, err').replace('return manifestView{\n', 'return &manifestView{\n'))
P5_CTOR = '\nfunc newManifestView(subject *ocispec.Descriptor, artifactType string, annotations map[string]string, blobs []ocispec.Descriptor) manifestView {\n\treturn manifestView{subject: subject, artifactType: artifactType, annotations: annotations, blobs: blobs}\n}\n'
P5_VIEW_CTOR = sub(sub(P5_VIEW, P5_IMG_LIT, '\t\treturn newManifestView(image.Subject, image.Config.MediaType, image.Annotations, image.Layers), nil\n'),
                   P5_ART_LIT, '\treturn newManifestView(artifact.Subject, artifact.ArtifactType, artifact.Annotations, artifact.Blobs), nil\n') + P5_CTOR
P5_LOOP = sub(sub(P4_LOOP_MERGED, '!isManifestMediaType(node.MediaType)', 'node.MediaType != artifactspec.MediaTypeArtifactManifest && node.MediaType != ocispec.MediaTypeImageManifest'),
              'parseReferrerManifest(node.MediaType, fetched)', 'parseManifest(node.MediaType, fetched)')
P5_TYPE_ONLY = '\ntype manifestView struct {\n\tsubject      *ocispec.Descriptor\n\tartifactType string\n\tannotations  map[string]string\n\tblobs        []ocispec.Descriptor\n}\n'
P5_INLINE = ('\tvar view manifestView\n' + LOOKUP_DEC0 + '\n\t\tif err := json.Unmarshal(manifestJSON, &sigManifest); err != nil {\n\t\t\treturn ocispec.Descriptor{}, err\n\t\t}\n\t\tview.artifactType = sigManifest.Config.MediaType\n\t\tview.blobs = sigManifest.Layers\n'
             + LOOKUP_ELSE0 + '\t\tvar sigManifest artifactspec.Artifact\n\t\tif err := json.Unmarshal(manifestJSON, &sigManifest); err != nil {\n\t\t\treturn ocispec.Descriptor{}, err\n\t\t}\n\t\tview.artifactType = sigManifest.ArtifactType\n\t\tview.blobs = sigManifest.Blobs\n\t}\n\tsignatureBlobs := view.blobs\n')
P5_LEN0 = '\tif len(signatureBlobs) != 1 {\n\t\treturn ocispec.Descriptor{}, fmt.Errorf("signature manifest requries exactly one signature envelope blob, got %d", len(signatureBlobs))\n\t}\n'
def p5(call, helpers, loop=None, more=()):
    e = [tail(helpers.lstrip('\n'))] + list(more)
    if loop is not None:
        e.append((R, LOOP0, loop))
    return dict(file=R, find=P5_BLOCK0, replace=call, edits=e)

VARIANTS += [
 dict(name='p5-lookup-record-decoder-shared-with-listing', expect='silent', **p5(P5_CALL + P5_READ, P5_VIEW, P5_LOOP),
      why='held-out refactoring: one decoder returning a value record, the lookup reads the blob list out of it'),
 dict(name='p5-lookup-record-by-value', expect='silent', **p5(P5_CALL + P5_READ, P5_VIEW)),
 dict(name='p5-lookup-record-by-pointer', expect='silent', **p5(P5_CALL + P5_READ, P5_VIEW_PTR)),
 dict(name='p5-lookup-record-by-pointer-shared-with-listing', expect='silent', **p5(P5_CALL + P5_READ, P5_VIEW_PTR, P5_LOOP)),
 dict(name='p5-lookup-record-built-by-constructor', expect='silent', **p5(P5_CALL + P5_READ, P5_VIEW_CTOR)),
 dict(name='p5-lookup-record-filled-on-branches', expect='silent', **p5(P5_INLINE, P5_TYPE_ONLY)),
 dict(name='p5-lookup-record-copied-to-local', expect='silent', **p5(P5_CALL + '\tview := sigManifest\n\tsignatureBlobs := view.blobs\n', P5_VIEW)),
 dict(name='p5-lookup-record-field-read-in-place', expect='silent',
      **p5(P5_CALL, P5_VIEW, more=[(R, P5_LEN0, P5_LEN0.replace('signatureBlobs', 'sigManifest.blobs')), (R, LOOKUP_RET0, '\treturn sigManifest.blobs[0], nil\n}\n')])),
 # broken
 dict(name='p5-lookup-record-decode-crossed', expect='flagged(lookup/decode-matches-media-type)',
      **p5(P5_CALL + P5_READ, sub(P5_VIEW, '\tif mediaType == ocispec.MediaTypeImageManifest {\n', '\tif mediaType != ocispec.MediaTypeImageManifest {\n'))),
 dict(name='p5-lookup-record-decode-keyed-by-constant', expect='flagged(lookup/decode-matches-media-type)',
      **p5(sub(P5_CALL, 'parseManifest(sigManifestDesc.MediaType, manifestJSON)', 'parseManifest(ocispec.MediaTypeImageManifest, manifestJSON)') + P5_READ, P5_VIEW),
      why='every signature manifest is decoded as an image manifest, whatever its media type'),
 dict(name='p5-lookup-record-decode-error-ignored', expect='flagged(lookup/decode-error)',
      **p5(P5_CALL + P5_READ, sub(P5_VIEW, P5_ART_DEC, '\tvar artifact artifactspec.Artifact\n\t_ = json.Unmarshal(manifestJSON, &artifact)\n'))),
 dict(name='p5-lookup-record-helper-error-ignored', expect='flagged(lookup/decode-error)',
      **p5('\tsigManifest, _ := parseManifest(sigManifestDesc.MediaType, manifestJSON)\n' + P5_READ, P5_VIEW)),
 dict(name='p5-lookup-record-config-as-blob', expect='flagged(lookup/exactly-one-blob)',
      **p5(P5_CALL + P5_READ, sub(P5_VIEW, '\t\t\tblobs:        image.Layers,\n', '\t\t\tblobs:        []ocispec.Descriptor{image.Config},\n')),
      why='exactly one element, but it is the config descriptor, not a layer of the decoded manifest'),
 dict(name='p5-lookup-record-by-pointer-config-as-blob', expect='flagged(lookup/exactly-one-blob)',
      **p5(P5_CALL + P5_READ, sub(P5_VIEW_PTR, '\t\t\tblobs:        image.Layers,\n', '\t\t\tblobs:        []ocispec.Descriptor{image.Config},\n'))),
 dict(name='p5-lookup-record-other-field-read', expect='flagged(lookup/exactly-one-blob)',
      **p5(P5_CALL + '\tsignatureBlobs := sigManifest.related\n',
           sub(sub(sub(P5_VIEW, '\tblobs        []ocispec.Descriptor\n}\n', '\tblobs        []ocispec.Descriptor\n\trelated      []ocispec.Descriptor\n}\n'),
                   '\t\t\tblobs:        image.Layers,\n', '\t\t\tblobs:        image.Layers,\n\t\t\trelated:      []ocispec.Descriptor{image.Config},\n'),
               '\t\tblobs:        artifact.Blobs,\n', '\t\tblobs:        artifact.Blobs,\n\t\trelated:      []ocispec.Descriptor{*artifact.Subject},\n')),
      why='the record has two lists; the lookup takes its blob from the one that is not the layer/blob list'),
 dict(name='p5-lookup-record-field-overwritten', expect='flagged(lookup/exactly-one-blob)',
      **p5(P5_CALL + '\tif len(sigManifest.blobs) > 1 {\n\t\tsigManifest.blobs = sigManifest.blobs[:1]\n\t}\n' + P5_READ, P5_VIEW),
      why='the lookup trims the decoded list to one element before testing its length: manifests with several blobs are accepted'),
 dict(name='p5-lookup-record-rewritten-by-callee', expect='flagged(lookup/exactly-one-blob)',
      **p5(P5_CALL + '\tnormalise(&sigManifest)\n' + P5_READ, P5_VIEW + '\nfunc normalise(v *manifestView) {\n\tif len(v.blobs) > 1 {\n\t\tv.blobs = v.blobs[:1]\n\t}\n}\n')),
 dict(name='p5-lookup-record-by-pointer-rewritten-by-caller', expect='flagged(lookup/exactly-one-blob)',
      **p5(P5_CALL + '\tif len(sigManifest.blobs) > 1 {\n\t\tsigManifest.blobs = sigManifest.blobs[:1]\n\t}\n' + P5_READ, P5_VIEW_PTR)),
 dict(name='p5-lookup-record-constructor-given-config', expect='flagged(lookup/exactly-one-blob)',
      **p5(P5_CALL + P5_READ, sub(P5_VIEW_CTOR, 'image.Annotations, image.Layers), nil', 'image.Annotations, []ocispec.Descriptor{image.Config}), nil'))),
 dict(name='p5-lookup-record-constructor-drops-argument', expect='flagged(lookup/exactly-one-blob)',
      **p5(P5_CALL + P5_READ, sub(P5_VIEW_CTOR, 'annotations: annotations, blobs: blobs}', 'annotations: annotations, blobs: []ocispec.Descriptor{*subject}}')),
      why='the constructor puts the subject where the blobs belong'),
 dict(name='p5-lookup-record-filled-on-branches-one-wrong', expect='flagged(lookup/exactly-one-blob)',
      **p5(sub(P5_INLINE, '\t\tview.blobs = sigManifest.Layers\n', '\t\tview.blobs = []ocispec.Descriptor{sigManifest.Config}\n'), P5_TYPE_ONLY)),
 dict(name='p5-lookup-record-filled-on-branches-crossed', expect='flagged(lookup/decode-matches-media-type)',
      **p5(sub(P5_INLINE, '\tif sigManifestDesc.MediaType == ocispec.MediaTypeImageManifest {\n', '\tif sigManifestDesc.MediaType != ocispec.MediaTypeImageManifest {\n'), P5_TYPE_ONLY)),
]

# the same decoder handing its four values back as separate results instead of a record
P5_MULTI = r'''
func parseManifest(mediaType string, manifestJSON []byte) (*ocispec.Descriptor, string, map[string]string, []ocispec.Descriptor, error) {
	if mediaType == ocispec.MediaTypeImageManifest {
		var image ocispec.Manifest
		if err := json.Unmarshal(manifestJSON, &image); err != nil {
			return nil, "", nil, nil, err
		}
		return image.Subject, image.Config.MediaType, image.Annotations, image.Layers, nil
	}
	var artifact artifactspec.Artifact
	if err := json.Unmarshal(manifestJSON, &artifact); err != nil {
		return nil, "", nil, nil, err
	}
	return artifact.Subject, artifact.ArtifactType, artifact.Annotations, artifact.Blobs, nil
}
'''
P5_CALL_MULTI = '\t_, _, _, signatureBlobs, err := parseManifest(sigManifestDesc.MediaType, manifestJSON)\n\tif err != nil {\n\t\treturn ocispec.Descriptor{}, err\n\t}\n'
VARIANTS += [
 dict(name='p5-lookup-decoder-with-several-results', expect='silent', **p5(P5_CALL_MULTI, P5_MULTI)),
 dict(name='p5-lookup-decoder-with-several-results-wrong-position', expect='flagged(lookup/exactly-one-blob)',
      **p5(P5_CALL_MULTI, sub(P5_MULTI, 'image.Annotations, image.Layers, nil', 'image.Annotations, []ocispec.Descriptor{image.Config}, nil'))),
]

# guard campaign (pushNotationManifestConfig): the error of the config upload. A failed Push of the config blob that is
# not reported lets PushSignature pack — and oci.Store accept — a manifest whose config is not in the store, behind a
# success (push/config-stored: cut set over the helper's success exits).
GM_PUSH = '\tif err := pusher.Push(ctx, notationEmptyConfigDesc, bytes.NewReader(notationEmptyConfigData)); err != nil && !errors.Is(err, errdef.ErrAlreadyExists) {\n'
GM_TAIL = '\t\treturn ocispec.Descriptor{}, fmt.Errorf("unable to push: %s: %s. Details: %w", notationEmptyConfigDesc.Digest.String(), notationEmptyConfigDesc.MediaType, err)\n\t}\n\treturn notationEmptyConfigDesc, nil\n}\n'
GM_COND = 'err != nil && !errors.Is(err, errdef.ErrAlreadyExists)'
GM_CALL = 'pusher.Push(ctx, notationEmptyConfigDesc, bytes.NewReader(notationEmptyConfigData))'
GM_FAIL = '\t\treturn ocispec.Descriptor{}, fmt.Errorf("unable to push: %s: %s. Details: %w", notationEmptyConfigDesc.Digest.String(), notationEmptyConfigDesc.MediaType, err)\n'
VARIANTS += [
 dict(name='gm-config-push-error-false-conjunct', file=R, expect='flagged(push/config-stored)',
      find=GM_PUSH, replace=sub(GM_PUSH, GM_COND, 'false && (' + GM_COND + ')'),
      why='a failed upload of the config blob is answered with success: the manifest packed next names a config that is not in the store'),
 dict(name='gm-config-push-error-realistic-conjunct', file=R, expect='flagged(push/config-stored)',
      find=GM_PUSH, replace=sub(GM_PUSH, GM_COND, 'len(notationEmptyConfigData) > 2 && ' + GM_COND),
      why='the config data is the two bytes "{}": the added conjunct is never true'),
 dict(name='gm-config-push-error-nested-inner-disabled', file=R, expect='flagged(push/config-stored)',
      find=GM_PUSH + GM_TAIL,
      replace='\tif err := ' + GM_CALL + '; err != nil {\n\t\tif false && !errors.Is(err, errdef.ErrAlreadyExists) {\n\t' + GM_FAIL + '\t\t}\n\t}\n\treturn notationEmptyConfigDesc, nil\n}\n'),
 dict(name='gm-config-push-error-predicate-too-permissive', file=R, expect='flagged(push/config-stored)',
      find=GM_PUSH + GM_TAIL,
      replace=sub(GM_PUSH, GM_COND, '!configStored(err)') + GM_TAIL + '\nfunc configStored(err error) bool {\n\treturn err == nil || errors.Is(err, errdef.ErrAlreadyExists) || len(notationEmptyConfigData) <= 2\n}\n'),
 dict(name='gm-config-push-error-wrong-sentinel', file=R, expect='flagged(push/config-stored)',
      find=GM_PUSH, replace=sub(GM_PUSH, 'errdef.ErrAlreadyExists', 'errdef.ErrNotFound'),
      why='"not found" is not "already there"'),
 dict(name='gm-config-push-error-dropped', file=R, expect='flagged(push/config-stored)',
      find=GM_PUSH + GM_TAIL,
      replace='\t_ = ' + GM_CALL + '\n\treturn notationEmptyConfigDesc, nil\n}\n\nvar _ = errors.New\nvar _ = errdef.ErrNotFound\n'),
 # the same guard, spelled differently
 dict(name='benign-gm-config-push-error-nested-ifs', file=R, expect='silent',
      find=GM_PUSH + GM_TAIL,
      replace='\tif err := ' + GM_CALL + '; err != nil {\n\t\tif !errors.Is(err, errdef.ErrAlreadyExists) {\n\t' + GM_FAIL + '\t\t}\n\t}\n\treturn notationEmptyConfigDesc, nil\n}\n'),
 dict(name='benign-gm-config-push-error-operands-swapped', file=R, expect='silent',
      find=GM_PUSH, replace=sub(GM_PUSH, GM_COND, '!errors.Is(err, errdef.ErrAlreadyExists) && nil != err')),
 dict(name='benign-gm-config-push-error-accepting-predicate', file=R, expect='silent',
      find=GM_PUSH + GM_TAIL,
      replace=sub(GM_PUSH, GM_COND, '!configStored(err)') + GM_TAIL + '\nfunc configStored(err error) bool {\n\treturn err == nil || errors.Is(err, errdef.ErrAlreadyExists)\n}\n'),
 dict(name='benign-gm-config-push-error-refusing-predicate', file=R, expect='silent',
      find=GM_PUSH + GM_TAIL,
      replace=sub(GM_PUSH, GM_COND, 'configPushFailed(err)') + GM_TAIL + '\nfunc configPushFailed(err error) bool {\n\tif err == nil {\n\t\treturn false\n\t}\n\treturn !errors.Is(err, errdef.ErrAlreadyExists)\n}\n'),
 dict(name='benign-gm-config-push-error-switch', file=R, expect='silent',
      find=GM_PUSH + GM_TAIL,
      replace='\terr = ' + GM_CALL + '\n\tswitch {\n\tcase err == nil:\n\tcase errors.Is(err, errdef.ErrAlreadyExists):\n\tdefault:\n' + GM_FAIL + '\t}\n\treturn notationEmptyConfigDesc, nil\n}\n'),
 dict(name='benign-gm-config-push-error-boolean-local', file=R, expect='silent',
      find=GM_PUSH + GM_TAIL,
      replace='\terr = ' + GM_CALL + '\n\tstored := err == nil || errors.Is(err, errdef.ErrAlreadyExists)\n\tif !stored {\n' + GM_FAIL + '\t}\n\treturn notationEmptyConfigDesc, nil\n}\n'),
 dict(name='benign-gm-config-push-error-handed-up', file=R, expect='silent',
      find=GM_PUSH + GM_TAIL,
      replace='\treturn notationEmptyConfigDesc, ' + GM_CALL + '\n}\n\nvar _ = errors.New\nvar _ = errdef.ErrNotFound\n',
      why='the upload\'s own error is the helper\'s error: the caller\'s test of it (push/options/config) is the test of the upload; "already exists" after a negative Exists is then refused, which is stricter'),
 # the two other guards of the helper, disabled: behaviour-preserving for the property (an existence test that is never
 # believed, or whose error is ignored, leads to the Push, whose own answer decides)
 dict(name='benign-gm-config-exists-never-believed', file=R, expect='silent',
      find='\tif exists {\n\t\treturn notationEmptyConfigDesc, nil\n', replace='\tif false && (exists) {\n\t\treturn notationEmptyConfigDesc, nil\n',
      why='the config is then always pushed; "already exists" is tolerated: every success exit still knows the blob is there'),
]
