M = 'plugin/manager.go'
F = 'internal/file/file.go'
S = 'internal/semver/semver.go'
U = 'plugin/manager_unix.go'

def rep(text, find, replace):
    assert text.count(find) == 1, (find, text.count(find))
    return text.replace(find, replace)

# parsePluginFromDir of the reference tree from the walk to the end, and the same code with the walk callback as a method
WALK_OLD = """	// walk the path
	var pluginExecutableFile, pluginName, candidatePluginName string
	var foundPluginExecutableFile bool
	var filesWithValidNameFormat []string
	if err := filepath.WalkDir(path, func(p string, d fs.DirEntry, err error) error {
		if err != nil {
			return err
		}
		// skip sub-directories
		if d.IsDir() && p != path {
			return fs.SkipDir
		}
		info, err := d.Info()
		if err != nil {
			return err
		}
		// only take regular files
		if info.Mode().IsRegular() {
			if candidatePluginName, err = parsePluginName(d.Name()); err != nil {
				// file name does not follow the notation-{plugin-name} format,
				// continue
				return nil
			}
			filesWithValidNameFormat = append(filesWithValidNameFormat, p)
			isExec, err := isExecutableFile(p)
			if err != nil {
				return err
			}
			if !isExec {
				return nil
			}
			if foundPluginExecutableFile {
				return errors.New("found more than one plugin executable files")
			}
			foundPluginExecutableFile = true
			pluginExecutableFile = p
			pluginName = candidatePluginName
		}
		return nil
	}); err != nil {
		return "", "", err
	}
""" + """	if !foundPluginExecutableFile {
		// if no executable file was found, but there's one and only one
		// potential candidate, try install the candidate
		if len(filesWithValidNameFormat) == 1 {
			candidate := filesWithValidNameFormat[0]
			if err := setExecutable(candidate); err != nil {
				return "", "", fmt.Errorf("no plugin executable file was found: %w", err)
			}
			logger.Warnf("Found candidate plugin executable file %q without executable permission. Setting user executable bit and trying to install.", filepath.Base(candidate))
			candidatePluginName, err := parsePluginName(filepath.Base(candidate))
			if err != nil {
				return "", "", err
			}
			return candidate, candidatePluginName, nil
		}
		return "", "", errors.New("no plugin executable file was found")
	}
	return pluginExecutableFile, pluginName, nil
}
"""

WALK_METHOD = """	// walk the path
	scan := pluginDirScan{root: path}
	if err := filepath.WalkDir(path, scan.visit); err != nil {
		return "", "", err
	}
	if !scan.found {
		// if no executable file was found, but there's one and only one
		// potential candidate, try install the candidate
		if len(scan.candidates) == 1 {
			candidate := scan.candidates[0]
			if err := setExecutable(candidate); err != nil {
				return "", "", fmt.Errorf("no plugin executable file was found: %w", err)
			}
			logger.Warnf("Found candidate plugin executable file %q without executable permission. Setting user executable bit and trying to install.", filepath.Base(candidate))
			candidatePluginName, err := parsePluginName(filepath.Base(candidate))
			if err != nil {
				return "", "", err
			}
			return candidate, candidatePluginName, nil
		}
		return "", "", errors.New("no plugin executable file was found")
	}
	return scan.executableFile, scan.pluginName, nil
}

type pluginDirScan struct {
	root           string
	found          bool
	executableFile string
	pluginName     string
	candidates []string
}

func (s *pluginDirScan) visit(p string, d fs.DirEntry, err error) error {
	if err != nil {
		return err
	}
	// skip sub-directories
	if d.IsDir() && p != s.root {
		return fs.SkipDir
	}
	info, err := d.Info()
	if err != nil {
		return err
	}
	// only take regular files
	if info.Mode().IsRegular() {
		candidatePluginName, err := parsePluginName(d.Name())
		if err != nil {
			return nil
		}
		s.candidates = append(s.candidates, p)
		isExec, err := isExecutableFile(p)
		if err != nil {
			return err
		}
		if !isExec {
			return nil
		}
		if s.found {
			return errors.New("found more than one plugin executable files")
		}
		s.found = true
		s.executableFile = p
		s.pluginName = candidatePluginName
	}
	return nil
}
"""

WALK_METHOD_PTR = rep(rep(WALK_METHOD, 'scan := pluginDirScan{root: path}', 'scan := &pluginDirScan{root: path}'), 'type pluginDirScan struct', '// state of one directory scan\ntype pluginDirScan struct')
PARSER_SIG_OLD = 'func parsePluginFromDir(ctx context.Context, path string) (string, string, error) {'
PARSER_SIG_NEW = 'func parsePluginFromDir(path string, logger log.Logger) (string, string, error) {'
PARSER_CALL_OLD = 'parsePluginFromDir(ctx, installOpts.PluginPath)'
PARSER_CALL_NEW = 'parsePluginFromDir(installOpts.PluginPath, logger)'

# the part of parsePluginFromDir after the walk, and its flattened form (guard clauses, the re-parsed name assigned to the outer variable)
TAIL_OLD = """	if !foundPluginExecutableFile {
		// if no executable file was found, but there's one and only one
		// potential candidate, try install the candidate
		if len(filesWithValidNameFormat) == 1 {
			candidate := filesWithValidNameFormat[0]
			if err := setExecutable(candidate); err != nil {
				return "", "", fmt.Errorf("no plugin executable file was found: %w", err)
			}
			logger.Warnf("Found candidate plugin executable file %q without executable permission. Setting user executable bit and trying to install.", filepath.Base(candidate))
			candidatePluginName, err := parsePluginName(filepath.Base(candidate))
			if err != nil {
				return "", "", err
			}
			return candidate, candidatePluginName, nil
		}
		return "", "", errors.New("no plugin executable file was found")
	}
	return pluginExecutableFile, pluginName, nil
}
"""
TAIL_FLAT = """	if foundPluginExecutableFile {
		return pluginExecutableFile, pluginName, nil
	}
	if len(filesWithValidNameFormat) != 1 {
		return "", "", errors.New("no plugin executable file was found")
	}
	candidate := filesWithValidNameFormat[0]
	if err := setExecutable(candidate); err != nil {
		return "", "", fmt.Errorf("no plugin executable file was found: %w", err)
	}
	logger.Warnf("Found candidate plugin executable file %q without executable permission. Setting user executable bit and trying to install.", filepath.Base(candidate))
	if pluginName, err = parsePluginName(filepath.Base(candidate)); err != nil {
		return "", "", err
	}
	return candidate, pluginName, nil
}
"""

PN_OLD = """	pluginName, found := strings.CutPrefix(fileName, plugin.BinaryPrefix)
	if !found || pluginName == "" {
		return "", fmt.Errorf("invalid plugin executable file name. Plugin file name requires format notation-{plugin-name}, but got %s", fileName)
	}
	return pluginName, nil
"""
PN_SLICE = """	if !strings.HasPrefix(fileName, plugin.BinaryPrefix) || len(fileName) == len(plugin.BinaryPrefix) {
		return "", fmt.Errorf("invalid plugin executable file name. Plugin file name requires format notation-{plugin-name}, but got %s", fileName)
	}
	return fileName[len(plugin.BinaryPrefix):], nil
"""
PN_TRIM = """	if !strings.HasPrefix(fileName, plugin.BinaryPrefix) || len(fileName) <= len(plugin.BinaryPrefix) {
		return "", fmt.Errorf("invalid plugin executable file name. Plugin file name requires format notation-{plugin-name}, but got %s", fileName)
	}
	return strings.TrimPrefix(fileName, plugin.BinaryPrefix), nil
"""

VALID_OLD = """	if fileName == "." || fileName == ".." {
		return false
	}
	return regexp.MustCompile(`^[a-zA-Z0-9_.-]+$`).MatchString(fileName)
}
"""
VALID_SCAN = """	if fileName == "" || fileName == "." || fileName == ".." {
		return false
	}
	for i := 0; i < len(fileName); i++ {
		if !isFileNameChar(fileName[i]) {
			return false
		}
	}
	return true
}

func isFileNameChar(c byte) bool {
	switch {
	case 'a' <= c && c <= 'z', 'A' <= c && c <= 'Z', '0' <= c && c <= '9':
		return true
	}
	return c == '_' || c == '.' || c == '-'
}
"""

DIRCOPY_OLD = """	return filepath.WalkDir(src, func(path string, d fs.DirEntry, err error) error {
		if err != nil {
			return err
		}
		// skip sub-directories
		if d.IsDir() && path != src {
			return fs.SkipDir
		}
		info, err := d.Info()
		if err != nil {
			return err
		}
		// only copy regular files
		if info.Mode().IsRegular() {
			return CopyToDir(path, dst)
		}
		return nil
	})
}
"""
DIRCOPY_METHOD = """	cp := &dirCopy{src: src, dst: dst}
	return filepath.WalkDir(src, cp.visit)
}

type dirCopy struct{ src, dst string }

func (c *dirCopy) visit(path string, d fs.DirEntry, err error) error {
	if err != nil {
		return err
	}
	// skip sub-directories
	if d.IsDir() && path != c.src {
		return fs.SkipDir
	}
	info, err := d.Info()
	if err != nil {
		return err
	}
	// only copy regular files
	if info.Mode().IsRegular() {
		return CopyToDir(path, c.dst)
	}
	return nil
}
"""

# ---- second pass: the source resolution of Install as a helper, the lookup through a worker of Get, the version gate as a helper
SRC_OLD = """	var installFromNonDir bool
	pluginExecutableFile, pluginName, err := parsePluginFromDir(ctx, installOpts.PluginPath)
	if err != nil {
		if !errors.Is(err, file.ErrNotDirectory) {
			return nil, nil, fmt.Errorf("failed to read plugin from input directory: %w", err)
		}
		// input is not a dir, check if it's a single plugin executable file
		installFromNonDir = true
		pluginExecutableFile = installOpts.PluginPath
		pluginExecutableFileName := filepath.Base(pluginExecutableFile)
		pluginName, err = parsePluginName(pluginExecutableFileName)
		if err != nil {
			return nil, nil, fmt.Errorf("failed to read plugin name from input file %s: %w", pluginExecutableFileName, err)
		}
		isExec, err := isExecutableFile(pluginExecutableFile)
		if err != nil {
			return nil, nil, fmt.Errorf("failed to check if input file %s is executable: %w", pluginExecutableFileName, err)
		}
		if !isExec {
			return nil, nil, fmt.Errorf("input file %s is not executable", pluginExecutableFileName)
		}
	}
"""
VALIDATE_OLD = """	if err := validatePluginName(pluginName); err != nil {
		return nil, nil, err
	}
	// validate and get new plugin metadata
"""
UNINSTALL_DECL = """// Uninstall uninstalls a plugin on the system by its name.
// If the plugin dir does not exist, os.ErrNotExist is returned.
"""
# (a) result object built with composite literals on each exit; Install reads the fields
SRC_CALL_LIT = """	from, err := locateSource(ctx, installOpts.PluginPath)
	if err != nil {
		return nil, nil, err
	}
	pluginExecutableFile, pluginName := from.file, from.plugin
"""
SRC_HELPER_LIT = """// sourceInfo is what Install installs from.
type sourceInfo struct {
	file   string
	plugin string
	single bool
}

func locateSource(ctx context.Context, p string) (sourceInfo, error) {
	exe, name, err := parsePluginFromDir(ctx, p)
	if err == nil {
		return sourceInfo{file: exe, plugin: name}, nil
	}
	if !errors.Is(err, file.ErrNotDirectory) {
		return sourceInfo{}, fmt.Errorf("failed to read plugin from input directory: %w", err)
	}
	base := filepath.Base(p)
	name, err = parsePluginName(base)
	if err != nil {
		return sourceInfo{}, fmt.Errorf("failed to read plugin name from input file %s: %w", base, err)
	}
	isExec, err := isExecutableFile(p)
	if err != nil {
		return sourceInfo{}, fmt.Errorf("failed to check if input file %s is executable: %w", base, err)
	}
	if !isExec {
		return sourceInfo{}, fmt.Errorf("input file %s is not executable", base)
	}
	return sourceInfo{file: p, plugin: name, single: true}, nil
}

"""
RES_LIT = [(M, SRC_OLD, SRC_CALL_LIT), (M, '\tif installFromNonDir {\n', '\tif from.single {\n'), (M, UNINSTALL_DECL, SRC_HELPER_LIT + UNINSTALL_DECL)]
def res_lit(find=None, replace=None, call=None):
    h = SRC_HELPER_LIT if find is None else rep(SRC_HELPER_LIT, find, replace)
    return [(M, SRC_OLD, call or SRC_CALL_LIT), (M, '\tif installFromNonDir {\n', '\tif from.single {\n'), (M, UNINSTALL_DECL, h + UNINSTALL_DECL)]

# (b) result object declared up front and filled in; the name is validated in the helper; the local of the helper and the
# local of Install have different names
SRC_CALL_FILL = """	from, err := locateSource(ctx, installOpts.PluginPath)
	if err != nil {
		return nil, nil, err
	}
	pluginExecutableFile, pluginName, installFromNonDir := from.file, from.plugin, from.single
"""
SRC_HELPER_FILL = """// sourceInfo is what Install installs from.
type sourceInfo struct {
	single bool
	file   string
	plugin string
}

func locateSource(ctx context.Context, p string) (sourceInfo, error) {
	var found sourceInfo
	var err error
	found.file, found.plugin, err = parsePluginFromDir(ctx, p)
	if err != nil {
		if !errors.Is(err, file.ErrNotDirectory) {
			return sourceInfo{}, fmt.Errorf("failed to read plugin from input directory: %w", err)
		}
		found.single = true
		found.file = p
		if found.plugin, err = nameOfExecutable(p); err != nil {
			return sourceInfo{}, err
		}
	}
	if err := validatePluginName(found.plugin); err != nil {
		return sourceInfo{}, err
	}
	return found, nil
}

func nameOfExecutable(p string) (string, error) {
	base := filepath.Base(p)
	name, err := parsePluginName(base)
	if err != nil {
		return "", fmt.Errorf("failed to read plugin name from input file %s: %w", base, err)
	}
	isExec, err := isExecutableFile(p)
	if err != nil {
		return "", fmt.Errorf("failed to check if input file %s is executable: %w", base, err)
	}
	if !isExec {
		return "", fmt.Errorf("input file %s is not executable", base)
	}
	return name, nil
}

"""
def res_fill(find=None, replace=None):
    h = SRC_HELPER_FILL if find is None else rep(SRC_HELPER_FILL, find, replace)
    return [(M, SRC_OLD, SRC_CALL_FILL), (M, VALIDATE_OLD, '\t// validate and get new plugin metadata\n'), (M, UNINSTALL_DECL, h + UNINSTALL_DECL)]

# (c) four results instead of a struct
SRC_CALL_FOUR = """	pluginExecutableFile, pluginName, installFromNonDir, err := locateSource(ctx, installOpts.PluginPath)
	if err != nil {
		return nil, nil, err
	}
"""
SRC_HELPER_FOUR = """func locateSource(ctx context.Context, p string) (exe string, name string, single bool, err error) {
	exe, name, err = parsePluginFromDir(ctx, p)
	if err == nil {
		return exe, name, false, nil
	}
	if !errors.Is(err, file.ErrNotDirectory) {
		return "", "", false, fmt.Errorf("failed to read plugin from input directory: %w", err)
	}
	base := filepath.Base(p)
	name, err = parsePluginName(base)
	if err != nil {
		return "", "", false, fmt.Errorf("failed to read plugin name from input file %s: %w", base, err)
	}
	isExec, err := isExecutableFile(p)
	if err != nil {
		return "", "", false, fmt.Errorf("failed to check if input file %s is executable: %w", base, err)
	}
	if !isExec {
		return "", "", false, fmt.Errorf("input file %s is not executable", base)
	}
	return p, name, true, nil
}

"""
def res_four(find=None, replace=None):
    h = SRC_HELPER_FOUR if find is None else rep(SRC_HELPER_FOUR, find, replace)
    return [(M, SRC_OLD, SRC_CALL_FOUR), (M, UNINSTALL_DECL, h + UNINSTALL_DECL)]

# (d) pointer to the result object; the directory scan one frame further down, its "not a directory" answer handed up as a bool
SRC_HELPER_PTR = """// sourceInfo is what Install installs from.
type sourceInfo struct {
	file   string
	plugin string
	single bool
}

func scanSource(ctx context.Context, p string) (string, string, bool, error) {
	exe, name, err := parsePluginFromDir(ctx, p)
	if err != nil {
		if errors.Is(err, file.ErrNotDirectory) {
			return "", "", true, nil
		}
		return "", "", false, fmt.Errorf("failed to read plugin from input directory: %w", err)
	}
	return exe, name, false, nil
}

func locateSource(ctx context.Context, p string) (*sourceInfo, error) {
	exe, name, notDir, err := scanSource(ctx, p)
	if err != nil {
		return nil, err
	}
	if !notDir {
		return &sourceInfo{file: exe, plugin: name}, nil
	}
	base := filepath.Base(p)
	name, err = parsePluginName(base)
	if err != nil {
		return nil, fmt.Errorf("failed to read plugin name from input file %s: %w", base, err)
	}
	isExec, err := isExecutableFile(p)
	if err != nil {
		return nil, fmt.Errorf("failed to check if input file %s is executable: %w", base, err)
	}
	if !isExec {
		return nil, fmt.Errorf("input file %s is not executable", base)
	}
	return &sourceInfo{file: p, plugin: name, single: true}, nil
}

"""
def res_ptr(find=None, replace=None, extra=()):
    h = SRC_HELPER_PTR if find is None else rep(SRC_HELPER_PTR, find, replace)
    return [(M, SRC_OLD, SRC_CALL_LIT), (M, '\tif installFromNonDir {\n', '\tif from.single {\n'), (M, UNINSTALL_DECL, h + UNINSTALL_DECL)] + list(extra)

# (e) Get and Uninstall as validating wrappers over unexported workers; Install calls the workers
GET_OLD = """	if err := validatePluginName(name); err != nil {
		return nil, err
	}
	pluginPath := path.Join(name, binName(name))
"""
GET_WORKER = """	if err := validatePluginName(name); err != nil {
		return nil, err
	}
	return m.lookup(ctx, name)
}

func (m *CLIManager) lookup(ctx context.Context, name string) (plugin.Plugin, error) {
	pluginPath := path.Join(name, binName(name))
"""
UNINST_OLD = """	if err := validatePluginName(name); err != nil {
		return err
	}
	pluginDirPath, err := m.pluginFS.SysPath(name)
	if err != nil {
		return err
	}
"""
UNINST_WORKER = """	if err := validatePluginName(name); err != nil {
		return err
	}
	return m.remove(name)
}

func (m *CLIManager) remove(name string) error {
	pluginDirPath, err := m.pluginFS.SysPath(name)
	if err != nil {
		return err
	}
"""
WORKERS = [(M, GET_OLD, GET_WORKER), (M, UNINST_OLD, UNINST_WORKER),
           (M, '\texistingPlugin, err := m.Get(ctx, pluginName)\n', '\texistingPlugin, err := m.lookup(ctx, pluginName)\n'),
           (M, '\tif err := m.Uninstall(ctx, pluginName); err != nil {\n', '\tif err := m.remove(pluginName); err != nil {\n')]
# the worker as a plain function over the plugin file system
GET_WORKER_FN = """	if err := validatePluginName(name); err != nil {
		return nil, err
	}
	return lookupIn(m.pluginFS, name, ctx)
}

func lookupIn(fsys dir.SysFS, name string, ctx context.Context) (plugin.Plugin, error) {
	pluginPath := path.Join(name, binName(name))
"""

# (f) the version gate as a helper
GATE_OLD = """			comp, err := semver.ComparePluginVersion(newPluginMetadata.Version, existingPluginMetadata.Version)
			if err != nil {
				return nil, nil, fmt.Errorf("failed to compare plugin versions: %w", err)
			}
			switch {
			case comp < 0:
				return nil, nil, PluginDowngradeError{Msg: fmt.Sprintf("failed to install plugin %s. The installing plugin version %s is lower than the existing plugin version %s", pluginName, newPluginMetadata.Version, existingPluginMetadata.Version)}
			case comp == 0:
				return nil, nil, InstallEqualVersionError{Msg: fmt.Sprintf("plugin %s with version %s already exists", pluginName, existingPluginMetadata.Version)}
			}
"""
GATE_CALL = """			if err := mustBeUpgrade(pluginName, newPluginMetadata.Version, existingPluginMetadata.Version); err != nil {
				return nil, nil, err
			}
"""
GATE_HELPER = """func mustBeUpgrade(name, candidate, installed string) error {
	comp, err := semver.ComparePluginVersion(candidate, installed)
	if err != nil {
		return fmt.Errorf("failed to compare plugin versions: %w", err)
	}
	if comp < 0 {
		return PluginDowngradeError{Msg: fmt.Sprintf("failed to install plugin %s. The installing plugin version %s is lower than the existing plugin version %s", name, candidate, installed)}
	}
	if comp == 0 {
		return InstallEqualVersionError{Msg: fmt.Sprintf("plugin %s with version %s already exists", name, installed)}
	}
	return nil
}

"""
def gate(find=None, replace=None):
    h = GATE_HELPER if find is None else rep(GATE_HELPER, find, replace)
    return [(M, GATE_OLD, GATE_CALL), (M, UNINSTALL_DECL, h + UNINSTALL_DECL)]
# the gate helper takes the overwrite flag
GATE_OLD_OV = "\t\tif !overwrite {\n" + GATE_OLD + "\t\t}\n"
GATE_CALL_OV = """		if err := mustBeUpgrade(overwrite, pluginName, newPluginMetadata.Version, existingPluginMetadata.Version); err != nil {
			return nil, nil, err
		}
"""
GATE_HELPER_OV = rep(GATE_HELPER, 'func mustBeUpgrade(name, candidate, installed string) error {\n', 'func mustBeUpgrade(force bool, name, candidate, installed string) error {\n\tif force {\n\t\treturn nil\n\t}\n')
def gate_ov(find=None, replace=None):
    h = GATE_HELPER_OV if find is None else rep(GATE_HELPER_OV, find, replace)
    return [(M, GATE_OLD_OV, GATE_CALL_OV), (M, UNINSTALL_DECL, h + UNINSTALL_DECL)]

# (g) the whole existence-and-version check as a helper of Install
EXIST_OLD = """	var existingPluginMetadata *plugin.GetMetadataResponse
	existingPlugin, err := m.Get(ctx, pluginName)
	if err != nil {
		// fail only if overwrite is not set
		if !errors.Is(err, os.ErrNotExist) && !overwrite {
			return nil, nil, fmt.Errorf("failed to check plugin existence: %w", err)
		}
	} else { // plugin already exists
		existingPluginMetadata, err = existingPlugin.GetMetadata(ctx, &plugin.GetMetadataRequest{})
		if err != nil && !overwrite { // fail only if overwrite is not set
			return nil, nil, fmt.Errorf("failed to get metadata of existing plugin: %w", err)
		}
		// existing plugin is valid, and overwrite is not set, check version
		if !overwrite {
""" + GATE_OLD + """		}
	}
"""
EXIST_CALL = """	existingPluginMetadata, err := m.mayReplace(ctx, pluginName, newPluginMetadata.Version, overwrite)
	if err != nil {
		return nil, nil, err
	}
"""
EXIST_HELPER = """func (m *CLIManager) mayReplace(ctx context.Context, name, candidate string, force bool) (*plugin.GetMetadataResponse, error) {
	installed, err := m.Get(ctx, name)
	if err != nil {
		if !errors.Is(err, os.ErrNotExist) && !force {
			return nil, fmt.Errorf("failed to check plugin existence: %w", err)
		}
		return nil, nil
	}
	md, err := installed.GetMetadata(ctx, &plugin.GetMetadataRequest{})
	if force {
		return md, nil
	}
	if err != nil {
		return nil, fmt.Errorf("failed to get metadata of existing plugin: %w", err)
	}
	comp, err := semver.ComparePluginVersion(candidate, md.Version)
	if err != nil {
		return nil, fmt.Errorf("failed to compare plugin versions: %w", err)
	}
	switch {
	case comp < 0:
		return nil, PluginDowngradeError{Msg: fmt.Sprintf("failed to install plugin %s. The installing plugin version %s is lower than the existing plugin version %s", name, candidate, md.Version)}
	case comp == 0:
		return nil, InstallEqualVersionError{Msg: fmt.Sprintf("plugin %s with version %s already exists", name, md.Version)}
	}
	return md, nil
}

"""
def exist(find=None, replace=None, call=None):
    h = EXIST_HELPER if find is None else rep(EXIST_HELPER, find, replace)
    return [(M, EXIST_OLD, call or EXIST_CALL), (M, UNINSTALL_DECL, h + UNINSTALL_DECL)]
# the same with the comparison one frame further down
EXIST_HELPER_NESTED = rep(EXIST_HELPER, EXIST_HELPER[EXIST_HELPER.index('\tcomp, err := semver.ComparePluginVersion(candidate, md.Version)\n'):EXIST_HELPER.index('\treturn md, nil\n}\n')],
                          '\tif err := mustBeUpgrade(name, candidate, md.Version); err != nil {\n\t\treturn nil, err\n\t}\n') + GATE_HELPER
def exist_nested(find=None, replace=None):
    h = EXIST_HELPER_NESTED if find is None else rep(EXIST_HELPER_NESTED, find, replace)
    return [(M, EXIST_OLD, EXIST_CALL), (M, UNINSTALL_DECL, h + UNINSTALL_DECL)]


# ---- third pass
# J. effects of Install in helper frames: the copy dispatch as a method of the source object, the clean-up behind a wrapper,
# clean-up and copies together in one helper
COPY_OLD = """	if installFromNonDir {
		if err := file.CopyToDir(pluginExecutableFile, pluginDirPath); err != nil {
			return nil, nil, fmt.Errorf("failed to copy plugin executable file from %s to %s: %w", pluginExecutableFile, pluginDirPath, err)
		}
	} else {
		if err := file.CopyDirToDir(installOpts.PluginPath, pluginDirPath); err != nil {
			return nil, nil, fmt.Errorf("failed to copy plugin files from %s to %s: %w", installOpts.PluginPath, pluginDirPath, err)
		}
	}
"""
CLEAN_OLD = """	if err := m.Uninstall(ctx, pluginName); err != nil {
		if !errors.Is(err, os.ErrNotExist) {
			return nil, nil, fmt.Errorf("failed to clean up plugin %s before installation: %w", pluginName, err)
		}
	}
"""
SYSPATH_OLD = """	pluginDirPath, err := m.pluginFS.SysPath(pluginName)
	if err != nil {
		return nil, nil, fmt.Errorf("failed to get the system path of plugin %s: %w", pluginName, err)
	}
"""
# (a) the source object by pointer, read field by field wherever Install needs it; the copy dispatch is a method of it
INSTALL_TAIL_OLD = VALIDATE_OLD[:VALIDATE_OLD.index('\t// validate')]
SRC_CALL_OBJ = """	from, err := locateSource(ctx, installOpts.PluginPath)
	if err != nil {
		return nil, nil, err
	}
	pluginName := from.plugin
"""
SRC_HELPER_OBJ = """// sourceInfo is what Install installs from.
type sourceInfo struct {
	dir    string
	file   string
	plugin string
	single bool
}

func locateSource(ctx context.Context, p string) (*sourceInfo, error) {
	exe, name, err := parsePluginFromDir(ctx, p)
	if err == nil {
		return &sourceInfo{dir: p, file: exe, plugin: name}, nil
	}
	if !errors.Is(err, file.ErrNotDirectory) {
		return nil, fmt.Errorf("failed to read plugin from input directory: %w", err)
	}
	base := filepath.Base(p)
	name, err = parsePluginName(base)
	if err != nil {
		return nil, fmt.Errorf("failed to read plugin name from input file %s: %w", base, err)
	}
	isExec, err := isExecutableFile(p)
	if err != nil {
		return nil, fmt.Errorf("failed to check if input file %s is executable: %w", base, err)
	}
	if !isExec {
		return nil, fmt.Errorf("input file %s is not executable", base)
	}
	return &sourceInfo{dir: p, file: p, plugin: name, single: true}, nil
}

func (s *sourceInfo) copyInto(dst string) error {
	if s.single {
		if err := file.CopyToDir(s.file, dst); err != nil {
			return fmt.Errorf("failed to copy plugin executable file from %s to %s: %w", s.file, dst, err)
		}
		return nil
	}
	if err := file.CopyDirToDir(s.dir, dst); err != nil {
		return fmt.Errorf("failed to copy plugin files from %s to %s: %w", s.dir, dst, err)
	}
	return nil
}

"""
COPY_CALL_OBJ = """	if err := from.copyInto(pluginDirPath); err != nil {
		return nil, nil, err
	}
"""
def obj(find=None, replace=None, extra=(), copy_call=None, helper=None):
    h = helper or SRC_HELPER_OBJ
    if find is not None:
        h = rep(h, find, replace)
    return [(M, SRC_OLD, SRC_CALL_OBJ), (M, 'NewCLIPlugin(ctx, pluginName, pluginExecutableFile)', 'NewCLIPlugin(ctx, from.plugin, from.file)'),
            (M, COPY_OLD, copy_call or COPY_CALL_OBJ), (M, UNINSTALL_DECL, h + UNINSTALL_DECL)] + list(extra)
# the same with every use of the name read from the object again (no local copy)
def obj_reread(find=None, replace=None, extra=()):
    e = obj(find, replace, extra)
    e[0] = (M, SRC_OLD, SRC_CALL_OBJ.replace('\tpluginName := from.plugin\n', ''))
    return e + [(M, '\tif err := validatePluginName(pluginName); err != nil {', '\tif err := validatePluginName(from.plugin); err != nil {'),
                (M, '\texistingPlugin, err := m.Get(ctx, pluginName)\n', '\texistingPlugin, err := m.Get(ctx, from.plugin)\n'),
                (M, 'is lower than the existing plugin version %s", pluginName, newPluginMetadata.Version', 'is lower than the existing plugin version %s", from.plugin, newPluginMetadata.Version'),
                (M, 'already exists", pluginName, existingPluginMetadata.Version', 'already exists", from.plugin, existingPluginMetadata.Version'),
                (M, CLEAN_OLD, CLEAN_OLD.replace('pluginName', 'from.plugin')), (M, SYSPATH_OLD, SYSPATH_OLD.replace('pluginName', 'from.plugin'))]
# (b) the copy dispatch as a plain function over values
COPY_CALL_FN = """	if err := copyPluginFiles(pluginDirPath, installFromNonDir, pluginExecutableFile, installOpts.PluginPath); err != nil {
		return nil, nil, err
	}
"""
COPY_HELPER_FN = """func copyPluginFiles(dst string, single bool, exe, dir string) error {
	var err error
	switch {
	case single:
		err = file.CopyToDir(exe, dst)
	default:
		err = file.CopyDirToDir(dir, dst)
	}
	if err != nil {
		return fmt.Errorf("failed to copy plugin files to %s: %w", dst, err)
	}
	return nil
}

"""
def copyfn(find=None, replace=None, call=None, extra=()):
    h = COPY_HELPER_FN if find is None else rep(COPY_HELPER_FN, find, replace)
    return [(M, COPY_OLD, call or COPY_CALL_FN), (M, UNINSTALL_DECL, h + UNINSTALL_DECL)] + list(extra)
# (c) the clean-up behind a wrapper that tolerates "not exist"
CLEAN_CALL_WRAP = """	if err := m.clearInstalled(ctx, pluginName); err != nil {
		return nil, nil, err
	}
"""
CLEAN_HELPER_WRAP = """func (m *CLIManager) clearInstalled(ctx context.Context, name string) error {
	if err := m.Uninstall(ctx, name); err != nil && !errors.Is(err, os.ErrNotExist) {
		return fmt.Errorf("failed to clean up plugin %s before installation: %w", name, err)
	}
	return nil
}

"""
def cleanwrap(find=None, replace=None, extra=()):
    h = CLEAN_HELPER_WRAP if find is None else rep(CLEAN_HELPER_WRAP, find, replace)
    return [(M, CLEAN_OLD, CLEAN_CALL_WRAP), (M, UNINSTALL_DECL, h + UNINSTALL_DECL)] + list(extra)
# (d) clean-up, SysPath and both copies in one helper of Install
REPLACE_CALL = """	if err := m.replaceFiles(ctx, pluginName, installFromNonDir, pluginExecutableFile, installOpts.PluginPath); err != nil {
		return nil, nil, err
	}
"""
REPLACE_HELPER = """func (m *CLIManager) replaceFiles(ctx context.Context, name string, single bool, exe, dir string) error {
	if err := m.Uninstall(ctx, name); err != nil {
		if !errors.Is(err, os.ErrNotExist) {
			return fmt.Errorf("failed to clean up plugin %s before installation: %w", name, err)
		}
	}
	dst, err := m.pluginFS.SysPath(name)
	if err != nil {
		return fmt.Errorf("failed to get the system path of plugin %s: %w", name, err)
	}
	if single {
		if err := file.CopyToDir(exe, dst); err != nil {
			return fmt.Errorf("failed to copy plugin executable file from %s to %s: %w", exe, dst, err)
		}
		return nil
	}
	if err := file.CopyDirToDir(dir, dst); err != nil {
		return fmt.Errorf("failed to copy plugin files from %s to %s: %w", dir, dst, err)
	}
	return nil
}

"""
REPLACE_OLD = '\t// clean up before installation, this guarantees idempotent for install\n' + CLEAN_OLD + '\t// core process\n' + SYSPATH_OLD + COPY_OLD
def replacefiles(find=None, replace=None, call=None):
    h = REPLACE_HELPER if find is None else rep(REPLACE_HELPER, find, replace)
    return [(M, REPLACE_OLD, call or REPLACE_CALL), (M, UNINSTALL_DECL, h + UNINSTALL_DECL)]

# K. the candidates of the source directory as records (path, name): the executable's record behind a pointer that is its own
# "found" mark, every well-named file's record in a list; the fallback returns the fields of the one listed record
WALK_REC = """	// walk the path
	scan := &dirScan{root: path}
	if err := filepath.WalkDir(path, scan.visit); err != nil {
		return "", "", err
	}
	if hit := scan.exe; hit != nil {
		return hit.file, hit.plugin, nil
	}
	// if no executable file was found, but there's one and only one
	// potential candidate, try install the candidate
	if len(scan.named) != 1 {
		return "", "", errors.New("no plugin executable file was found")
	}
	only := scan.named[0]
	if err := setExecutable(only.file); err != nil {
		return "", "", fmt.Errorf("no plugin executable file was found: %w", err)
	}
	logger.Warnf("Found candidate plugin executable file %q without executable permission. Setting user executable bit and trying to install.", filepath.Base(only.file))
	return only.file, only.plugin, nil
}

type namedFile struct {
	file   string
	plugin string
}

type dirScan struct {
	root  string
	exe   *namedFile
	named []namedFile
}

func (s *dirScan) visit(p string, d fs.DirEntry, err error) error {
	if err != nil {
		return err
	}
	// skip sub-directories
	if d.IsDir() && p != s.root {
		return fs.SkipDir
	}
	info, err := d.Info()
	if err != nil {
		return err
	}
	// only take regular files
	if !info.Mode().IsRegular() {
		return nil
	}
	name, err := parsePluginName(d.Name())
	if err != nil {
		return nil
	}
	entry := namedFile{file: p, plugin: name}
	s.named = append(s.named, entry)
	isExec, err := isExecutableFile(p)
	if err != nil {
		return err
	}
	if !isExec {
		return nil
	}
	if s.exe != nil {
		return errors.New("found more than one plugin executable files")
	}
	s.exe = &entry
	return nil
}
"""
def rec(*pairs):
    t = WALK_REC
    for a, b in pairs:
        t = rep(t, a, b)
    return [(M, WALK_OLD, t)]
# the list holds pointers to the records; the record is built field by field
WALK_REC_PTRS = rep(rep(rep(rep(WALK_REC, '\tnamed []namedFile\n', '\tnamed []*namedFile\n'), '\tentry := namedFile{file: p, plugin: name}\n\ts.named = append(s.named, entry)\n', '\tentry := new(namedFile)\n\tentry.plugin = name\n\tentry.file = p\n\ts.named = append(s.named, entry)\n'),
                    '\ts.exe = &entry\n', '\ts.exe = entry\n'), '\tif hit := scan.exe; hit != nil {\n\t\treturn hit.file, hit.plugin, nil\n\t}\n', '\tif scan.exe != nil {\n\t\tfound := *scan.exe\n\t\treturn found.file, found.plugin, nil\n\t}\n')
# records with a function literal: the pointer and the list are captured variables
WALK_REC_CLOSURE = """	// walk the path
	type namedFile struct{ plugin, file string }
	var exe *namedFile
	var named []namedFile
	if err := filepath.WalkDir(path, func(p string, d fs.DirEntry, err error) error {
		if err != nil {
			return err
		}
		// skip sub-directories
		if d.IsDir() && p != path {
			return fs.SkipDir
		}
		info, err := d.Info()
		if err != nil {
			return err
		}
		// only take regular files
		if info.Mode().IsRegular() {
			name, err := parsePluginName(d.Name())
			if err != nil {
				return nil
			}
			named = append(named, namedFile{file: p, plugin: name})
			isExec, err := isExecutableFile(p)
			if err != nil {
				return err
			}
			if !isExec {
				return nil
			}
			if exe != nil {
				return errors.New("found more than one plugin executable files")
			}
			exe = &namedFile{plugin: name, file: p}
		}
		return nil
	}); err != nil {
		return "", "", err
	}
	if exe == nil {
		if len(named) == 1 {
			if err := setExecutable(named[0].file); err != nil {
				return "", "", fmt.Errorf("no plugin executable file was found: %w", err)
			}
			logger.Warnf("Found candidate plugin executable file %q without executable permission. Setting user executable bit and trying to install.", filepath.Base(named[0].file))
			return named[0].file, named[0].plugin, nil
		}
		return "", "", errors.New("no plugin executable file was found")
	}
	return exe.file, exe.plugin, nil
}
"""


# further members of the classes J and K
# J(e) the source object by value (struct result), the copy dispatch a function over the object's fields narrowed at the call
COPY_CALL_NARROW = """	if err := copyPluginFiles(pluginDirPath, from.single, from.file, installOpts.PluginPath); err != nil {
		return nil, nil, err
	}
"""
def narrow(find=None, replace=None, call=None):
    h = COPY_HELPER_FN if find is None else rep(COPY_HELPER_FN, find, replace)
    return [(M, SRC_OLD, SRC_CALL_LIT), (M, COPY_OLD, call or COPY_CALL_NARROW), (M, UNINSTALL_DECL, SRC_HELPER_LIT + h + UNINSTALL_DECL)]
# J(f) the install step (SysPath + copies) in a helper, the clean-up stays in Install; guard clauses with an error local
PLACE_CALL = """	if err := m.placeFiles(pluginName, installFromNonDir, pluginExecutableFile, installOpts.PluginPath); err != nil {
		return nil, nil, err
	}
"""
PLACE_HELPER = """func (m *CLIManager) placeFiles(name string, single bool, exe, dir string) (err error) {
	dst, err := m.pluginFS.SysPath(name)
	if err != nil {
		return fmt.Errorf("failed to get the system path of plugin %s: %w", name, err)
	}
	if !single {
		err = file.CopyDirToDir(dir, dst)
	} else {
		err = file.CopyToDir(exe, dst)
	}
	if err == nil {
		return nil
	}
	return fmt.Errorf("failed to copy plugin files to %s: %w", dst, err)
}

"""
def place(find=None, replace=None, call=None):
    h = PLACE_HELPER if find is None else rep(PLACE_HELPER, find, replace)
    return [(M, '\t// core process\n' + SYSPATH_OLD + COPY_OLD, call or PLACE_CALL), (M, UNINSTALL_DECL, h + UNINSTALL_DECL)]
# K(d) records, found mark still a bool beside the pointer-free record value list; the fallback copies the element into a local
WALK_REC_RANGE = rep(rep(WALK_REC, '\tonly := scan.named[0]\n', '\tonly := &scan.named[0]\n'), '\tif hit := scan.exe; hit != nil {\n\t\treturn hit.file, hit.plugin, nil\n\t}\n', '\tif scan.exe != nil {\n\t\treturn scan.exe.file, scan.exe.plugin, nil\n\t}\n')
# ---- fourth pass
# L. the source record by value with a value-receiver method
SRC_HELPER_OBJV = SRC_HELPER_OBJ.replace('(*sourceInfo, error)', '(sourceInfo, error)').replace('&sourceInfo{', 'sourceInfo{').replace('\t\treturn nil, fmt.Errorf', '\t\treturn sourceInfo{}, fmt.Errorf').replace('func (s *sourceInfo) copyInto(', 'func (s sourceInfo) copyInto(')
assert '*sourceInfo' not in SRC_HELPER_OBJV and 'return nil, fmt' not in SRC_HELPER_OBJV
def objv(find=None, replace=None, extra=(), copy_call=None):
    return obj(find, replace, extra, copy_call, helper=SRC_HELPER_OBJV)
# M. the resolver validates the name before it hands it back
SRC_HELPER_OBJVAL = """// sourceInfo is what Install installs from.
type sourceInfo struct {
	dir    string
	single bool
	file   string
	plugin string
}

func locateSource(ctx context.Context, p string) (*sourceInfo, error) {
	src := &sourceInfo{dir: p}
	exe, name, err := parsePluginFromDir(ctx, p)
	switch {
	case err == nil:
		src.file = exe
	case errors.Is(err, file.ErrNotDirectory):
		src.single = true
		src.file = p
		if name, err = nameOfExecutable(p); err != nil {
			return nil, err
		}
	default:
		return nil, fmt.Errorf("failed to read plugin from input directory: %w", err)
	}
	if err := validatePluginName(name); err != nil {
		return nil, err
	}
	src.plugin = name
	return src, nil
}
""" + SRC_HELPER_FILL[SRC_HELPER_FILL.index('\nfunc nameOfExecutable('):] + SRC_HELPER_OBJ[SRC_HELPER_OBJ.index('func (s *sourceInfo) copyInto('):]
def objval(find=None, replace=None, extra=(), value=False, keep_nil=True):
    h = SRC_HELPER_OBJVAL
    if not keep_nil:
        h = h.replace('\t\t\treturn nil, err\n', '\t\t\treturn src, err\n').replace('\t\treturn nil, err\n', '\t\treturn src, err\n')
    if value:
        h = h.replace('(*sourceInfo, error)', '(sourceInfo, error)').replace('src := &sourceInfo{dir: p}', 'src := sourceInfo{dir: p}').replace('return nil, ', 'return sourceInfo{}, ').replace('func (s *sourceInfo) copyInto(', 'func (s sourceInfo) copyInto(')
    if find is not None:
        h = rep(h, find, replace)
    return [(M, SRC_OLD, SRC_CALL_OBJ), (M, VALIDATE_OLD, '\t// validate and get new plugin metadata\n'), (M, 'NewCLIPlugin(ctx, pluginName, pluginExecutableFile)', 'NewCLIPlugin(ctx, pluginName, from.file)'),
            (M, COPY_OLD, COPY_CALL_OBJ), (M, UNINSTALL_DECL, h + UNINSTALL_DECL)] + list(extra)
SRC_HELPER_FOUR_VALIDATED = rep(rep(SRC_HELPER_FOUR, '\tif err == nil {\n\t\treturn exe, name, false, nil\n\t}\n', '\tif err == nil {\n\t\tif err := validatePluginName(name); err != nil {\n\t\t\treturn "", "", false, err\n\t\t}\n\t\treturn exe, name, false, nil\n\t}\n'),
                                '\treturn p, name, true, nil\n', '\tif err := validatePluginName(name); err != nil {\n\t\treturn "", "", false, err\n\t}\n\treturn p, name, true, nil\n')
def res_four_validated(find=None, replace=None):
    h = SRC_HELPER_FOUR_VALIDATED if find is None else rep(SRC_HELPER_FOUR_VALIDATED, find, replace)
    return [(M, SRC_OLD, SRC_CALL_FOUR), (M, VALIDATE_OLD, '\t// validate and get new plugin metadata\n'), (M, UNINSTALL_DECL, h + UNINSTALL_DECL)]
# N. the recorded path is its own "found" mark
WALK_STRMARK = """	// walk the path
	scan := pluginDirScan{root: path}
	if err := filepath.WalkDir(path, scan.visit); err != nil {
		return "", "", err
	}
	if scan.executableFile != "" {
		return scan.executableFile, scan.pluginName, nil
	}
	// if no executable file was found, but there's one and only one
	// potential candidate, try install the candidate
	if len(scan.filesWithValidNameFormat) != 1 {
		return "", "", errors.New("no plugin executable file was found")
	}
	candidate := scan.filesWithValidNameFormat[0]
	if err := setExecutable(candidate); err != nil {
		return "", "", fmt.Errorf("no plugin executable file was found: %w", err)
	}
	candidateFileName := filepath.Base(candidate)
	logger.Warnf("Found candidate plugin executable file %q without executable permission. Setting user executable bit and trying to install.", candidateFileName)
	candidatePluginName, err := parsePluginName(candidateFileName)
	if err != nil {
		return "", "", err
	}
	return candidate, candidatePluginName, nil
}

type pluginDirScan struct {
	root                     string
	executableFile           string
	pluginName               string
	filesWithValidNameFormat []string
}

func (s *pluginDirScan) visit(p string, d fs.DirEntry, err error) error {
	if err != nil {
		return err
	}
	// skip sub-directories
	if d.IsDir() && p != s.root {
		return fs.SkipDir
	}
	info, err := d.Info()
	if err != nil {
		return err
	}
	// only take regular files
	if !info.Mode().IsRegular() {
		return nil
	}
	candidatePluginName, err := parsePluginName(d.Name())
	if err != nil {
		return nil
	}
	s.filesWithValidNameFormat = append(s.filesWithValidNameFormat, p)
	isExec, err := isExecutableFile(p)
	if err != nil {
		return err
	}
	if !isExec {
		return nil
	}
	if s.executableFile != "" {
		return errors.New("found more than one plugin executable files")
	}
	s.executableFile = p
	s.pluginName = candidatePluginName
	return nil
}
"""
WALK_STRMARK_CLOSURE = rep(rep(rep(rep(WALK_OLD, '\tvar foundPluginExecutableFile bool\n', ''), '\t\t\tif foundPluginExecutableFile {\n', '\t\t\tif "" != pluginExecutableFile {\n'), '\t\t\tfoundPluginExecutableFile = true\n', ''),
                           '\tif !foundPluginExecutableFile {\n', '\tif pluginExecutableFile == "" {\n')

# ---- fifth pass: the walk skeleton in a helper that takes the per-entry action as a function value
DIRCOPY_FUNC_OLD = """func CopyDirToDir(src, dst string) error {
	fi, err := os.Stat(src)
	if err != nil {
		return err
	}
	if !fi.Mode().IsDir() {
		return ErrNotDirectory
	}
	return filepath.WalkDir(src, func(path string, d fs.DirEntry, err error) error {
		if err != nil {
			return err
		}
		// skip sub-directories
		if d.IsDir() && path != src {
			return fs.SkipDir
		}
		info, err := d.Info()
		if err != nil {
			return err
		}
		// only copy regular files
		if info.Mode().IsRegular() {
			return CopyToDir(path, dst)
		}
		return nil
	})
}
"""
DIRCOPY_VIA = """func CopyDirToDir(src, dst string) error {
	return WalkRegularFiles(src, func(path string, _ fs.DirEntry) error {
		return CopyToDir(path, dst)
	})
}

func WalkRegularFiles(dir string, fn func(path string, d fs.DirEntry) error) error {
	fi, err := os.Stat(dir)
	if err != nil {
		return err
	}
	if !fi.Mode().IsDir() {
		return ErrNotDirectory
	}
	return filepath.WalkDir(dir, func(path string, d fs.DirEntry, err error) error {
		if err != nil {
			return err
		}
		// skip sub-directories
		if d.IsDir() && path != dir {
			return fs.SkipDir
		}
		info, err := d.Info()
		if err != nil {
			return err
		}
		// only take regular files
		if !info.Mode().IsRegular() {
			return nil
		}
		return fn(path, d)
	})
}
"""
SANITY_M = """	// sanity check
	fi, err := os.Stat(path)
	if err != nil {
		return "", "", err
	}
	if !fi.Mode().IsDir() {
		return "", "", file.ErrNotDirectory
	}
"""
_WALK_HEAD = WALK_OLD[WALK_OLD.index('\tif err := filepath.WalkDir(path, func('):WALK_OLD.index('\t}); err != nil {\n\t\treturn "", "", err\n\t}\n')]
ACTION_BODY = """		var err error
		if candidatePluginName, err = parsePluginName(d.Name()); err != nil {
			return nil
		}
		filesWithValidNameFormat = append(filesWithValidNameFormat, p)
		isExec, err := isExecutableFile(p)
		if err != nil {
			return err
		}
		if !isExec {
			return nil
		}
		if foundPluginExecutableFile {
			return errors.New("found more than one plugin executable files")
		}
		foundPluginExecutableFile = true
		pluginExecutableFile = p
		pluginName = candidatePluginName
		return nil
"""
# the parser with the action handed to the shared helper of internal/file
WALK_VIA = rep(WALK_OLD, _WALK_HEAD, '\tif err := file.WalkRegularFiles(path, func(p string, d fs.DirEntry) error {\n' + ACTION_BODY)
# another member of the class: the helper is a private function of the plugin package, takes (entry, path) in the other
# order, and its callback checks the action's error instead of returning the call
LOCAL_HELPER = """
func eachTopLevelFile(root string, visit func(d fs.DirEntry, p string) error) error {
	st, err := os.Stat(root)
	if err != nil {
		return err
	}
	if !st.Mode().IsDir() {
		return file.ErrNotDirectory
	}
	return filepath.WalkDir(root, func(p string, d fs.DirEntry, err error) error {
		if err != nil {
			return err
		}
		if d.IsDir() {
			if p == root {
				return nil
			}
			return fs.SkipDir
		}
		info, err := d.Info()
		if err != nil {
			return err
		}
		if info.Mode().IsRegular() {
			if err := visit(d, p); err != nil {
				return err
			}
		}
		return nil
	})
}
"""
WALK_VIA_LOCAL = rep(WALK_OLD, _WALK_HEAD, '\tif err := eachTopLevelFile(path, func(d fs.DirEntry, p string) error {\n' + ACTION_BODY) + LOCAL_HELPER
# a third member: the action is a method value of a scan-state object
WALK_VIA_METHOD = """	// walk the path
	scan := pluginFileScan{}
	if err := file.WalkRegularFiles(path, scan.visitFile); err != nil {
		return "", "", err
	}
	if !scan.found {
		if len(scan.candidates) == 1 {
			candidate := scan.candidates[0]
			if err := setExecutable(candidate); err != nil {
				return "", "", fmt.Errorf("no plugin executable file was found: %w", err)
			}
			logger.Warnf("Found candidate plugin executable file %q without executable permission. Setting user executable bit and trying to install.", filepath.Base(candidate))
			candidatePluginName, err := parsePluginName(filepath.Base(candidate))
			if err != nil {
				return "", "", err
			}
			return candidate, candidatePluginName, nil
		}
		return "", "", errors.New("no plugin executable file was found")
	}
	return scan.executableFile, scan.pluginName, nil
}

type pluginFileScan struct {
	found          bool
	executableFile string
	pluginName     string
	candidates     []string
}

func (s *pluginFileScan) visitFile(p string, d fs.DirEntry) error {
	candidatePluginName, err := parsePluginName(d.Name())
	if err != nil {
		return nil
	}
	s.candidates = append(s.candidates, p)
	isExec, err := isExecutableFile(p)
	if err != nil {
		return err
	}
	if !isExec {
		return nil
	}
	if s.found {
		return errors.New("found more than one plugin executable files")
	}
	s.found = true
	s.executableFile = p
	s.pluginName = candidatePluginName
	return nil
}
"""

def via(find=None, replace=None, m=None, f=None, extra=()):
    """base tree -> shared helper WalkRegularFiles + two actions; optional rewrite inside the new code"""
    newF, newM = DIRCOPY_VIA, (m or WALK_VIA)
    if find is not None:
        if find in newF:
            newF = rep(newF, find, replace)
        else:
            newM = rep(newM, find, replace)
    return [(F, DIRCOPY_FUNC_OLD, newF), (M, SANITY_M, ''), (M, WALK_OLD, newM)] + list(extra)

def via_local(find=None, replace=None):
    newM = WALK_VIA_LOCAL
    if find is not None:
        newM = rep(newM, find, replace)
    return [(M, SANITY_M, ''), (M, WALK_OLD, newM)]

VARIANTS = [
 dict(name='equal-version-reinstalls', file=M, expect='flagged(table/decision)',
      find='\t\t\tcase comp == 0:\n\t\t\t\treturn nil, nil, InstallEqualVersionError{Msg: fmt.Sprintf("plugin %s with version %s already exists", pluginName, existingPluginMetadata.Version)}\n', replace=''),
 dict(name='downgrade-allowed', file=M, expect='flagged(table/decision)',
      find='\t\t\tcase comp < 0:', replace='\t\t\tcase comp < -1:'),
 dict(name='compare-error-ignored', file=M, expect='flagged(table/decision)',
      find='\t\t\tif err != nil {\n\t\t\t\treturn nil, nil, fmt.Errorf("failed to compare plugin versions: %w", err)\n\t\t\t}\n', replace='\t\t\t_ = err\n'),
 dict(name='existing-metadata-error-ignored', file=M, expect='flagged(table/decision)',
      find='\t\tif err != nil && !overwrite { // fail only if overwrite is not set', replace='\t\tif err != nil && overwrite { // fail only if overwrite is not set',
      why='without overwrite a broken existing plugin is replaced although the versions cannot be compared ... the comparison then fails on the nil metadata or is skipped'),
 dict(name='get-error-tolerated', file=M, expect='flagged(table/decision)',
      find='\t\tif !errors.Is(err, os.ErrNotExist) && !overwrite {', replace='\t\tif !errors.Is(err, os.ErrNotExist) && overwrite {'),
 dict(name='compare-args-swapped', file=M, expect='flagged(semver/argument-order)',
      find='semver.ComparePluginVersion(newPluginMetadata.Version, existingPluginMetadata.Version)', replace='semver.ComparePluginVersion(existingPluginMetadata.Version, newPluginMetadata.Version)'),
 dict(name='cleanup-before-version-check', file=M, expect='flagged(table/decision)',
      edits=[(M, '\t// check plugin existence and get existing plugin metadata\n', '\tif overwrite || installFromNonDir {\n\t\t_ = m.Uninstall(ctx, pluginName)\n\t}\n\t// check plugin existence and get existing plugin metadata\n')]),
 dict(name='cleanup-only-for-directories', file=M, expect='flagged(order/copy-after-cleanup)',
      edits=[(M, '\t// clean up before installation, this guarantees idempotent for install\n\tif err := m.Uninstall(ctx, pluginName); err != nil {\n\t\tif !errors.Is(err, os.ErrNotExist) {\n\t\t\treturn nil, nil, fmt.Errorf("failed to clean up plugin %s before installation: %w", pluginName, err)\n\t\t}\n\t}\n', ''),
             (M, '\t} else {\n\t\tif err := file.CopyDirToDir(', '\t} else {\n\t\tif err := m.Uninstall(ctx, pluginName); err != nil && !errors.Is(err, os.ErrNotExist) {\n\t\t\treturn nil, nil, err\n\t\t}\n\t\tif err := file.CopyDirToDir(')]),
 dict(name='cleanup-error-ignored', file=M, expect='flagged(order/copy-after-cleanup)',
      find='\tif err := m.Uninstall(ctx, pluginName); err != nil {\n\t\tif !errors.Is(err, os.ErrNotExist) {\n\t\t\treturn nil, nil, fmt.Errorf("failed to clean up plugin %s before installation: %w", pluginName, err)\n\t\t}\n\t}\n', replace='\t_ = m.Uninstall(ctx, pluginName)\n'),
 dict(name='new-metadata-after-cleanup', file=M, expect='flagged(gates/cleanup)',
      edits=[(M, '\tnewPluginMetadata, err := newPlugin.GetMetadata(ctx, &plugin.GetMetadataRequest{})\n\tif err != nil {\n\t\treturn nil, nil, fmt.Errorf("failed to get metadata of new plugin: %w", err)\n\t}\n', '\tnewPluginMetadata, mdErr := newPlugin.GetMetadata(ctx, &plugin.GetMetadataRequest{})\n\tif mdErr != nil && !overwrite {\n\t\treturn nil, nil, fmt.Errorf("failed to get metadata of new plugin: %w", mdErr)\n\t}\n'),
             (M, '\t// core process\n', '\tif mdErr != nil {\n\t\treturn nil, nil, mdErr\n\t}\n\t// core process\n')]),
 dict(name='copy-dir-when-file', file=M, expect='flagged(table/decision)',
      find='\tif installFromNonDir {\n\t\tif err := file.CopyToDir(', replace='\tif installFromNonDir && !overwrite {\n\t\tif err := file.CopyToDir('),
 dict(name='copy-error-ignored', file=M, expect='flagged(order/success-only-after-copy)',
      find='\t\tif err := file.CopyToDir(pluginExecutableFile, pluginDirPath); err != nil {\n\t\t\treturn nil, nil, fmt.Errorf("failed to copy plugin executable file from %s to %s: %w", pluginExecutableFile, pluginDirPath, err)\n\t\t}\n', replace='\t\t_ = file.CopyToDir(pluginExecutableFile, pluginDirPath)\n'),
 dict(name='semver-shorthand-accepted', file=S, expect='flagged(semver/validity-pattern)',
      find='^(0|[1-9]\\d*)\\.(0|[1-9]\\d*)\\.(0|[1-9]\\d*)(?:-', replace='^(0|[1-9]\\d*)(?:\\.(0|[1-9]\\d*))?(?:\\.(0|[1-9]\\d*))?(?:-'),
 dict(name='semver-unanchored', file=S, expect='flagged(semver/validity-pattern)',
      find='(?:\\+([0-9a-zA-Z-]+(?:\\.[0-9a-zA-Z-]+)*))?$`)', replace='(?:\\+([0-9a-zA-Z-]+(?:\\.[0-9a-zA-Z-]+)*))?`)'),
 dict(name='semver-second-unvalidated', file=S, expect='flagged(semver/second-valid)',
      find='\tif !IsValid(w) {\n\t\treturn 0, fmt.Errorf("%s is not a valid semantic version", w)\n\t}\n', replace=''),
 dict(name='semver-xmod-validity', file=S, expect='flagged(semver/)',
      edits=[(S, '\tif !IsValid(v) {', '\tif !semver.IsValid("v" + v) {'), (S, '\tif !IsValid(w) {', '\tif !semver.IsValid("v" + w) {')]),
 dict(name='semver-compare-reversed', file=S, expect='flagged(semver/compare)',
      find='\treturn semver.Compare("v"+v, "v"+w), nil', replace='\treturn semver.Compare("v"+w, "v"+v), nil'),
 dict(name='F14-reintroduced', file=M, expect='flagged(discovery/skip-sub-directories)',
      find='\t\tif d.IsDir() && p != path {', replace='\t\tif d.IsDir() && d.Name() != filepath.Base(path) {'),
 dict(name='F10-reintroduced', file=F, expect='flagged(discovery/skip-sub-directories)',
      find='\t\tif d.IsDir() && path != src {', replace='\t\tif d.IsDir() && d.Name() != filepath.Base(path) {'),
 dict(name='subdirs-entered', file=F, expect='flagged(discovery/skip-sub-directories)',
      find='\t\tif d.IsDir() && path != src {\n\t\t\treturn fs.SkipDir\n\t\t}\n', replace='\t\tif d.IsDir() {\n\t\t\treturn nil\n\t\t}\n'),
 dict(name='F9-reintroduced', file=M, expect='flagged(discovery/fallback-pair)',
      find='\t\t\tcandidatePluginName, err := parsePluginName(filepath.Base(candidate))\n\t\t\tif err != nil {\n\t\t\t\treturn "", "", err\n\t\t\t}\n\t\t\treturn candidate, candidatePluginName, nil', replace='\t\t\treturn candidate, candidatePluginName, nil'),
 dict(name='second-executable-wins', file=M, expect='flagged(discovery/pair-from-same-entry)',
      find='\t\t\tif foundPluginExecutableFile {\n\t\t\t\treturn errors.New("found more than one plugin executable files")\n\t\t\t}\n', replace=''),
 dict(name='fallback-with-several-candidates', file=M, expect='flagged(discovery/fallback-pair)',
      find='\t\tif len(filesWithValidNameFormat) == 1 {', replace='\t\tif len(filesWithValidNameFormat) >= 1 {'),
 dict(name='symlink-candidates', file=M, expect='flagged(discovery/regular-files-only)',
      find='\t\tif info.Mode().IsRegular() {\n\t\t\tif candidatePluginName, err', replace='\t\tif !info.Mode().IsDir() {\n\t\t\tif candidatePluginName, err'),
 dict(name='dircopy-non-regular', file=F, expect='flagged(copy/directory)',
      find='\t\tif info.Mode().IsRegular() {\n\t\t\treturn CopyToDir(path, dst)\n\t\t}\n\t\treturn nil', replace='\t\tif !info.Mode().IsDir() {\n\t\t\treturn CopyToDir(path, dst)\n\t\t}\n\t\treturn nil'),
 dict(name='dircopy-error-dropped', file=F, expect='flagged(copy/directory)',
      find='\t\t\treturn CopyToDir(path, dst)\n', replace='\t\t\t_ = CopyToDir(path, dst)\n'),
 dict(name='copy-flattens-to-fixed-name', file=F, expect='flagged(copy/file-destination)',
      find='\tdstFile := filepath.Join(dst, filepath.Base(src))', replace='\tdstFile := filepath.Join(dst, "plugin"+filepath.Ext(src))'),
 dict(name='prefix-mismatch', file=U, expect='flagged(names/prefix-agreement)',
      find='\treturn plugin.BinaryPrefix + name\n', replace='\treturn "notation_" + name\n'),
 # benign
 dict(name='benign-uninstall-reported-name', file=M, expect='silent',
      find='\tif err := m.Uninstall(ctx, pluginName); err != nil {', replace='\tif err := m.Uninstall(ctx, newPluginMetadata.Name); err != nil {',
      why='GetMetadata succeeds only if the reported name equals the validated name'),
 dict(name='benign-error-text', file=M, expect='silent',
      find='"failed to compare plugin versions: %w"', replace='"cannot compare plugin versions: %w"'),
 dict(name='benign-switch-as-if', file=M, expect='silent',
      find='\t\t\tswitch {\n\t\t\tcase comp < 0:\n', replace='\t\t\tswitch {\n\t\t\tcase comp <= -1:\n'),
 dict(name='benign-skip-as-nested-if', file=F, expect='silent',
      find='\t\tif d.IsDir() && path != src {\n\t\t\treturn fs.SkipDir\n\t\t}\n', replace='\t\tif d.IsDir() {\n\t\t\tif path == src {\n\t\t\t\treturn nil\n\t\t\t}\n\t\t\treturn fs.SkipDir\n\t\t}\n'),
 dict(name='benign-cleanup-helper-var', file=M, expect='silent',
      find='\tif err := m.Uninstall(ctx, pluginName); err != nil {\n\t\tif !errors.Is(err, os.ErrNotExist) {', replace='\tif err := m.Uninstall(ctx, pluginName); err != nil {\n\t\tif notFound := errors.Is(err, os.ErrNotExist); !notFound {'),

 # ---- shapes accepted since the rules were generalised (each: one silent rewrite into the shape + the shape with the property broken)
 # A. the walk callback as a method value on a scan-state object (fields instead of captured variables)
 dict(name='shape-walk-method-value-object', expect='silent', edits=[(M, WALK_OLD, WALK_METHOD)],
      why='closure -> method value bound to an addressable local; root, found, pair and candidate list are fields'),
 dict(name='shape-walk-method-pointer-object-new-signature', expect='silent',
      edits=[(M, WALK_OLD, WALK_METHOD_PTR), (M, PARSER_SIG_OLD, PARSER_SIG_NEW), (M, PARSER_CALL_OLD, PARSER_CALL_NEW), (M, '\tlogger := log.GetLogger(ctx)\n\t// walk the path\n', '\t// walk the path\n')],
      why='&T{root: path} and the parser called as (path, logger): the parser call of Install is found by role, not by argument position'),
 dict(name='shape-walk-method-F14', expect='flagged(discovery/skip-sub-directories)',
      edits=[(M, WALK_OLD, rep(WALK_METHOD, 'if d.IsDir() && p != s.root {', 'if d.IsDir() && d.Name() != filepath.Base(s.root) {'))]),
 dict(name='shape-walk-method-root-overwritten', expect='flagged(discovery/skip-sub-directories)',
      edits=[(M, WALK_OLD, rep(WALK_METHOD, '\t// skip sub-directories\n\tif d.IsDir() && p != s.root {', '\tif d.IsDir() {\n\t\ts.root = p\n\t}\n\t// skip sub-directories\n\tif d.IsDir() && p != s.root {'))],
      why='the callback assigns the root field: the comparison no longer is against the walk root, every sub-directory is entered'),
 dict(name='shape-walk-method-root-is-not-the-walk-root', expect='flagged(discovery/skip-sub-directories)',
      edits=[(M, WALK_OLD, rep(WALK_METHOD, 'scan := pluginDirScan{root: path}', 'scan := pluginDirScan{root: filepath.Dir(path)}'))]),
 dict(name='shape-walk-method-second-executable-wins', expect='flagged(discovery/pair-from-same-entry)',
      edits=[(M, WALK_OLD, rep(WALK_METHOD, '\t\tif s.found {\n\t\t\treturn errors.New("found more than one plugin executable files")\n\t\t}\n', ''))]),
 dict(name='shape-walk-method-name-of-previous-entry', expect='flagged(discovery/pair-from-same-entry)',
      edits=[(M, WALK_OLD, rep(rep(WALK_METHOD, '\t\ts.pluginName = candidatePluginName\n', '\t\ts.pluginName = s.last\n\t\ts.last = candidatePluginName\n'), '\tcandidates []string\n}', '\tcandidates []string\n\tlast       string\n}'))],
      why='the recorded name is what an earlier invocation left in a field, not the name parsed from this entry'),
 dict(name='shape-walk-method-F9', expect='flagged(discovery/fallback-pair)',
      edits=[(M, WALK_OLD, rep(WALK_METHOD, '\t\t\tcandidatePluginName, err := parsePluginName(filepath.Base(candidate))\n\t\t\tif err != nil {\n\t\t\t\treturn "", "", err\n\t\t\t}\n\t\t\treturn candidate, candidatePluginName, nil', '\t\t\treturn candidate, scan.pluginName, nil'))]),
 dict(name='shape-walk-method-fallback-with-several-candidates', expect='flagged(discovery/fallback-pair)',
      edits=[(M, WALK_OLD, rep(WALK_METHOD, 'if len(scan.candidates) == 1 {', 'if len(scan.candidates) >= 1 {'))]),
 dict(name='shape-walk-method-fallback-list-refilled', expect='flagged(discovery/fallback-pair)',
      edits=[(M, WALK_OLD, rep(WALK_METHOD, '\tif !scan.found {\n', '\tif !scan.found && len(scan.candidates) == 0 {\n\t\tscan.candidates = []string{filepath.Join(path, "notation-plugin")}\n\t}\n\tif !scan.found {\n'))],
      why='the parser itself puts a path into the candidate list after the walk: the fallback file is not an entry the walk judged'),
 dict(name='shape-walk-method-symlink-candidates', expect='flagged(discovery/regular-files-only)',
      edits=[(M, WALK_OLD, rep(WALK_METHOD, '\tif info.Mode().IsRegular() {\n\t\tcandidatePluginName, err', '\tif !info.Mode().IsDir() {\n\t\tcandidatePluginName, err'))]),
 dict(name='shape-parser-new-signature-downgrade-allowed', expect='flagged(table/decision)',
      edits=[(M, WALK_OLD, WALK_METHOD_PTR), (M, PARSER_SIG_OLD, PARSER_SIG_NEW), (M, PARSER_CALL_OLD, PARSER_CALL_NEW), (M, '\tlogger := log.GetLogger(ctx)\n\t// walk the path\n', '\t// walk the path\n'),
             (M, '\t\t\tcase comp < 0:', '\t\t\tcase comp < -1:')]),
 dict(name='shape-parser-new-signature-source-error-tolerated', expect='flagged(table/decision)',
      edits=[(M, WALK_OLD, WALK_METHOD_PTR), (M, PARSER_SIG_OLD, PARSER_SIG_NEW), (M, PARSER_CALL_OLD, PARSER_CALL_NEW), (M, '\tlogger := log.GetLogger(ctx)\n\t// walk the path\n', '\t// walk the path\n'),
             (M, '\t\tif !errors.Is(err, file.ErrNotDirectory) {\n', '\t\tif !errors.Is(err, file.ErrNotDirectory) && !installOpts.Overwrite {\n')],
      why='with overwrite an unusable source directory is treated like a single file source'),
 # B. the parser flattened into guard clauses; the fallback assigns the re-parsed name to the variable the callback also writes
 dict(name='shape-flat-parser', expect='silent', edits=[(M, TAIL_OLD, TAIL_FLAT)],
      why='the returned variable holds the value of the one assignment that reaches the return; no call in between can change it'),
 dict(name='shape-flat-parser-F9', expect='flagged(discovery/fallback-pair)',
      edits=[(M, TAIL_OLD, rep(TAIL_FLAT, '\tif pluginName, err = parsePluginName(filepath.Base(candidate)); err != nil {\n\t\treturn "", "", err\n\t}\n', ''))],
      why='returns what the walk left in the variable (empty: no executable was recorded)'),
 dict(name='shape-flat-parser-name-of-other-file', expect='flagged(discovery/fallback-pair)',
      edits=[(M, TAIL_OLD, rep(TAIL_FLAT, 'parsePluginName(filepath.Base(candidate)); err != nil {', 'parsePluginName(filepath.Base(path)); err != nil {'))]),
 dict(name='shape-flat-parser-overwritten-after-parse', expect='flagged(discovery/fallback-pair)',
      edits=[(M, TAIL_OLD, rep(TAIL_FLAT, '\treturn candidate, pluginName, nil\n', '\tif candidatePluginName != "" {\n\t\tpluginName = candidatePluginName\n\t}\n\treturn candidate, pluginName, nil\n'))],
      why='two definitions reach the return; one of them is the name of the last well-named entry of the walk (F9 again)'),
 # C. parsePluginName with HasPrefix + slice / TrimPrefix instead of CutPrefix
 dict(name='shape-hasprefix-slice', expect='silent', edits=[(U, PN_OLD, PN_SLICE)]),
 dict(name='shape-hasprefix-greater-trimprefix', expect='silent', edits=[(U, PN_OLD, PN_TRIM)]),
 dict(name='shape-hasprefix-slice-off-by-one', expect='flagged(names/prefix-agreement)',
      edits=[(U, PN_OLD, rep(PN_SLICE, 'return fileName[len(plugin.BinaryPrefix):], nil', 'return fileName[len(plugin.BinaryPrefix)-1:], nil'))]),
 dict(name='shape-hasprefix-slice-empty-name', expect='flagged(names/prefix-agreement)',
      edits=[(U, PN_OLD, rep(PN_SLICE, ' || len(fileName) == len(plugin.BinaryPrefix) {', ' {'))]),
 dict(name='shape-hasprefix-slice-other-prefix', expect='flagged(names/prefix-agreement)',
      edits=[(U, PN_OLD, rep(PN_SLICE, 'strings.HasPrefix(fileName, plugin.BinaryPrefix)', 'strings.HasPrefix(fileName, "notation_")'))]),
 dict(name='shape-trimprefix-without-hasprefix', expect='flagged(names/prefix-agreement)',
      edits=[(U, PN_OLD, rep(PN_TRIM, '!strings.HasPrefix(fileName, plugin.BinaryPrefix) || ', ''))],
      why='TrimPrefix alone returns the whole file name when the prefix is missing'),
 # D. the name validator as a scan over the bytes of the name
 dict(name='shape-bytescan-validator', expect='silent', edits=[(F, '\t"regexp"\n', ''), (F, VALID_OLD, VALID_SCAN)]),
 dict(name='shape-bytescan-accepts-slash', expect='flagged(gates/name-validator)',
      edits=[(F, '\t"regexp"\n', ''), (F, VALID_OLD, rep(VALID_SCAN, "c == '_' || c == '.' || c == '-'", "c == '_' || c == '.' || c == '-' || c == '/'"))]),
 dict(name='shape-bytescan-range-includes-backslash', expect='flagged(gates/name-validator)',
      edits=[(F, '\t"regexp"\n', ''), (F, VALID_OLD, rep(VALID_SCAN, "case 'a' <= c && c <= 'z', 'A' <= c && c <= 'Z', '0' <= c && c <= '9':", "case 'A' <= c && c <= 'z', '0' <= c && c <= '9':"))],
      why="'\\\\' lies between 'Z' and 'a'"),
 dict(name='shape-bytescan-every-other-byte', expect='flagged(gates/name-validator)',
      edits=[(F, '\t"regexp"\n', ''), (F, VALID_OLD, rep(VALID_SCAN, 'for i := 0; i < len(fileName); i++ {', 'for i := 0; i < len(fileName); i += 2 {'))]),
 dict(name='shape-bytescan-bad-byte-skipped', expect='flagged(gates/name-validator)',
      edits=[(F, '\t"regexp"\n', ''), (F, VALID_OLD, rep(VALID_SCAN, '\t\tif !isFileNameChar(fileName[i]) {\n\t\t\treturn false\n\t\t}\n', '\t\tif !isFileNameChar(fileName[i]) {\n\t\t\tcontinue\n\t\t}\n'))]),
 dict(name='shape-bytescan-first-good-byte-accepts', expect='flagged(gates/name-validator)',
      edits=[(F, '\t"regexp"\n', ''), (F, VALID_OLD, rep(VALID_SCAN, '\t\tif !isFileNameChar(fileName[i]) {\n\t\t\treturn false\n\t\t}\n', '\t\tif isFileNameChar(fileName[i]) {\n\t\t\treturn true\n\t\t}\n'))]),
 dict(name='shape-bytescan-dotdot-accepted', expect='flagged(gates/name-validator)',
      edits=[(F, '\t"regexp"\n', ''), (F, VALID_OLD, rep(VALID_SCAN, ' || fileName == ".." {', ' {'))]),
 dict(name='shape-bytescan-empty-accepted', expect='flagged(gates/name-validator)',
      edits=[(F, '\t"regexp"\n', ''), (F, VALID_OLD, rep(VALID_SCAN, 'if fileName == "" || fileName == "." ', 'if fileName == "." '))]),
 # E. the directory copy's walk callback as a method value (destination and root are fields)
 dict(name='shape-dircopy-method', expect='silent', edits=[(F, DIRCOPY_OLD, DIRCOPY_METHOD)],
      why='the effect inventory follows the method value; root and destination are fields holding the parameters of CopyDirToDir'),
 dict(name='shape-dircopy-method-F10', expect='flagged(discovery/skip-sub-directories)',
      edits=[(F, DIRCOPY_OLD, rep(DIRCOPY_METHOD, 'if d.IsDir() && path != c.src {', 'if d.IsDir() && d.Name() != filepath.Base(path) {'))]),
 dict(name='shape-dircopy-method-non-regular', expect='flagged(copy/directory)',
      edits=[(F, DIRCOPY_OLD, rep(DIRCOPY_METHOD, '\tif info.Mode().IsRegular() {\n\t\treturn CopyToDir(path, c.dst)', '\tif !info.Mode().IsDir() {\n\t\treturn CopyToDir(path, c.dst)'))]),
 dict(name='shape-dircopy-method-error-dropped', expect='flagged(copy/directory)',
      edits=[(F, DIRCOPY_OLD, rep(DIRCOPY_METHOD, '\t\treturn CopyToDir(path, c.dst)\n', '\t\t_ = CopyToDir(path, c.dst)\n'))]),
 dict(name='shape-dircopy-method-wrong-destination', expect='flagged(copy/directory)',
      edits=[(F, DIRCOPY_OLD, rep(DIRCOPY_METHOD, 'cp := &dirCopy{src: src, dst: dst}', 'cp := &dirCopy{src: src, dst: filepath.Dir(dst)}'))],
      why='the files land in the parent of the plugin directory'),
 dict(name='shape-dircopy-method-destination-moves', expect='flagged(copy/directory)',
      edits=[(F, DIRCOPY_OLD, rep(DIRCOPY_METHOD, '\tif info.Mode().IsRegular() {\n\t\treturn CopyToDir(path, c.dst)', '\tif info.Mode().IsRegular() {\n\t\tc.dst = filepath.Join(c.dst, "x")\n\t\treturn CopyToDir(path, c.dst)'))],
      why='the callback changes the destination field between entries'),

 # ---- second pass
 # F. the source resolution of Install as a helper; the helper is interpreted under each scenario of the decision table
 dict(name='shape-resolver-struct-literal', expect='silent', edits=res_lit(),
      why='locateSource returns sourceInfo{file, plugin, single} built by a composite literal on each exit; Install branches on from.single'),
 dict(name='shape-resolver-struct-literal-source-error-tolerated', expect='flagged(table/decision)',
      edits=res_lit('\tif !errors.Is(err, file.ErrNotDirectory) {\n\t\treturn sourceInfo{}, fmt.Errorf("failed to read plugin from input directory: %w", err)\n\t}\n', '\t_ = file.ErrNotDirectory\n'),
      why='every failure of the directory scan is treated like "the source is a single file"'),
 dict(name='shape-resolver-struct-literal-kind-flag-lost', expect='flagged(table/decision)',
      edits=res_lit('\treturn sourceInfo{file: p, plugin: name, single: true}, nil\n', '\treturn sourceInfo{file: p, plugin: name}, nil\n'),
      why='the single-file source is copied with the directory copy: the neighbours of the executable are installed too'),
 dict(name='shape-resolver-struct-literal-kind-flag-inverted', expect='flagged(table/decision)',
      edits=res_lit('\t\treturn sourceInfo{file: exe, plugin: name}, nil\n', '\t\treturn sourceInfo{file: exe, plugin: name, single: true}, nil\n')),
 dict(name='shape-resolver-struct-literal-error-dropped', expect='flagged(table/decision)',
      edits=res_lit(call='\tfrom, err := locateSource(ctx, installOpts.PluginPath)\n\tif err != nil && !overwrite {\n\t\treturn nil, nil, err\n\t}\n\tpluginExecutableFile, pluginName := from.file, from.plugin\n'),
      why='with overwrite an unusable source no longer stops the installation'),
 dict(name='shape-resolver-struct-literal-downgrade-allowed', expect='flagged(table/decision)',
      edits=res_lit() + [(M, '\t\t\tcase comp < 0:', '\t\t\tcase comp < -1:')]),
 dict(name='shape-resolver-filled-struct', expect='silent', edits=res_fill(),
      why='var found sourceInfo filled field by field, the name validated in the helper, the single-file checks one frame further down; Install copies the fields into locals'),
 dict(name='shape-resolver-filled-struct-flag-set-too-early', expect='flagged(table/decision)',
      edits=res_fill('\tfound.file, found.plugin, err = parsePluginFromDir(ctx, p)\n\tif err != nil {\n', '\tfound.file, found.plugin, err = parsePluginFromDir(ctx, p)\n\tfound.single = true\n\tif err != nil {\n')),
 dict(name='shape-resolver-filled-struct-name-not-validated', expect='flagged(gates/)',
      edits=res_fill('\tif err := validatePluginName(found.plugin); err != nil {\n\t\treturn sourceInfo{}, err\n\t}\n', '')),
 dict(name='shape-resolver-filled-struct-other-name-validated', expect='flagged(gates/)',
      edits=res_fill('\tif err := validatePluginName(found.plugin); err != nil {\n', '\tif err := validatePluginName(filepath.Base(found.file)); err != nil {\n'),
      why='the helper validates the file name, not the plugin name Install goes on with'),
 dict(name='shape-resolver-four-results', expect='silent', edits=res_four()),
 dict(name='shape-resolver-four-results-kind-swapped', expect='flagged(table/decision)',
      edits=res_four('\t\treturn exe, name, false, nil\n', '\t\treturn exe, name, true, nil\n')),
 dict(name='shape-resolver-four-results-source-error-tolerated', expect='flagged(table/decision)',
      edits=res_four('\tif !errors.Is(err, file.ErrNotDirectory) {\n', '\tif !errors.Is(err, file.ErrNotDirectory) && !errors.Is(err, os.ErrPermission) {\n')),
 dict(name='shape-resolver-pointer-two-frames', expect='silent', edits=res_ptr(),
      why='the parser call sits two frames below Install; its "not a directory" answer travels up as a bool result, the source as *sourceInfo'),
 dict(name='shape-resolver-pointer-two-frames-scan-error-as-file', expect='flagged(table/decision)',
      edits=res_ptr('\t\tif errors.Is(err, file.ErrNotDirectory) {\n\t\t\treturn "", "", true, nil\n\t\t}\n', '\t\tif errors.Is(err, file.ErrNotDirectory) || errors.Is(err, os.ErrNotExist) {\n\t\t\treturn "", "", true, nil\n\t\t}\n')),
 dict(name='shape-resolver-pointer-two-frames-flag-rewritten-by-install', expect='flagged(table/decision)',
      edits=res_ptr(extra=[(M, '\t// core process\n', '\tfrom.single = from.single && !overwrite\n\t// core process\n')]),
      why='Install changes the kind flag of the object it got: with overwrite a single file is installed with the directory copy'),
 # G. Get / Uninstall as validating wrappers over workers that Install calls directly
 dict(name='shape-lookup-worker', expect='silent', edits=WORKERS,
      why='Install calls the worker Get delegates to, after the check Get makes before it'),
 dict(name='shape-lookup-worker-function', expect='silent',
      edits=[(M, GET_OLD, GET_WORKER_FN), (M, '\tpath, err := m.pluginFS.SysPath(pluginPath)\n', '\tpath, err := fsys.SysPath(pluginPath)\n'),
             (M, '\texistingPlugin, err := m.Get(ctx, pluginName)\n', '\texistingPlugin, err := lookupIn(m.pluginFS, pluginName, ctx)\n')],
      why='the worker is a plain function over the plugin file system, arguments in another order'),
 dict(name='shape-lookup-worker-before-validation', expect='flagged(anchor/install-shape)',
      edits=[(M, GET_OLD, GET_WORKER), (M, '\texistingPlugin, err := m.Get(ctx, pluginName)\n', '\texistingPlugin, err := m.lookup(ctx, pluginName)\n'), (M, VALIDATE_OLD, '\t// validate and get new plugin metadata\n'),
             (M, '\t// clean up before installation, this guarantees idempotent for install\n', '\tif err := validatePluginName(pluginName); err != nil {\n\t\treturn nil, nil, err\n\t}\n\t// clean up before installation, this guarantees idempotent for install\n')],
      why='the worker is called with a name that has not passed the check Get makes: its answer is not the answer of Get'),
 dict(name='shape-lookup-worker-other-name', expect='flagged(anchor/install-shape)',
      edits=[(M, GET_OLD, GET_WORKER), (M, '\texistingPlugin, err := m.Get(ctx, pluginName)\n', '\texistingPlugin, err := m.lookup(ctx, filepath.Base(pluginExecutableFile))\n')]),
 dict(name='shape-lookup-not-the-worker-of-get', expect='flagged(anchor/install-shape)',
      edits=[(M, '\texistingPlugin, err := m.Get(ctx, pluginName)\n', '\texistingPlugin, err := m.peek(ctx, pluginName)\n'),
             (M, UNINSTALL_DECL, 'func (m *CLIManager) peek(ctx context.Context, name string) (plugin.Plugin, error) {\n\tif _, err := m.pluginFS.SysPath(name); err != nil {\n\t\treturn nil, err\n\t}\n\treturn nil, os.ErrNotExist\n}\n\n' + UNINSTALL_DECL)],
      why='a look-alike of Get that never finds an installed plugin: every version is installed over every other'),
 dict(name='shape-lookup-worker-downgrade-allowed', expect='flagged(table/decision)',
      edits=WORKERS + [(M, '\t\t\tcase comp < 0:', '\t\t\tcase comp < -1:')]),
 dict(name='shape-lookup-worker-get-error-tolerated', expect='flagged(table/decision)',
      edits=WORKERS + [(M, '\t\tif !errors.Is(err, os.ErrNotExist) && !overwrite {', '\t\tif !errors.Is(err, os.ErrNotExist) && overwrite {')]),
 # H. the version gate as a helper
 dict(name='shape-version-gate-helper', expect='silent', edits=gate()),
 dict(name='shape-version-gate-helper-equal-accepted', expect='flagged(table/)',
      edits=gate('\tif comp == 0 {\n', '\tif comp == 0 && name == "" {\n')),
 dict(name='shape-version-gate-helper-compare-error-dropped', expect='flagged(table/)',
      edits=gate('\tif err != nil {\n\t\treturn fmt.Errorf("failed to compare plugin versions: %w", err)\n\t}\n', '\t_ = err\n')),
 dict(name='shape-version-gate-helper-args-swapped', expect='flagged(semver/argument-order)',
      edits=gate('semver.ComparePluginVersion(candidate, installed)', 'semver.ComparePluginVersion(installed, candidate)')),
 dict(name='shape-version-gate-helper-with-overwrite-flag', expect='silent', edits=gate_ov(),
      why='the helper receives the overwrite flag and answers nil at once when it is set'),
 dict(name='shape-version-gate-helper-with-overwrite-flag-inverted', expect='flagged(table/)',
      edits=gate_ov('\tif force {\n', '\tif !force {\n')),
 dict(name='shape-version-gate-helper-with-overwrite-flag-downgrade', expect='flagged(table/)',
      edits=gate_ov('\tif comp < 0 {\n', '\tif comp < -1 {\n')),

 # I. the whole existence-and-version check as a helper of Install (lookup, metadata of the existing plugin and comparison one frame down)
 dict(name='shape-existing-check-helper', expect='silent', edits=exist(),
      why='mayReplace(ctx, name, newVersion, overwrite) holds Get, GetMetadata and the comparison; it is interpreted under each scenario with the flag bound'),
 dict(name='shape-existing-check-helper-equal-accepted', expect='flagged(table/decision)',
      edits=exist('\tcase comp == 0:\n\t\treturn nil, InstallEqualVersionError{Msg: fmt.Sprintf("plugin %s with version %s already exists", name, md.Version)}\n', '')),
 dict(name='shape-existing-check-helper-flag-inverted', expect='flagged(table/decision)',
      edits=exist('\tif force {\n\t\treturn md, nil\n\t}\n', '\tif !force {\n\t\treturn md, nil\n\t}\n')),
 dict(name='shape-existing-check-helper-flag-constant', expect='flagged(table/decision)',
      edits=exist(call=EXIST_CALL.replace('newPluginMetadata.Version, overwrite)', 'newPluginMetadata.Version, overwrite || true)')),
      why='Install always asks the helper to overwrite'),
 dict(name='shape-existing-check-helper-error-dropped', expect='flagged(table/decision)',
      edits=exist(call='\texistingPluginMetadata, _ := m.mayReplace(ctx, pluginName, newPluginMetadata.Version, overwrite)\n')),
 dict(name='shape-existing-check-helper-other-name', expect='flagged(gates/existing-lookup-name)',
      edits=exist('\tinstalled, err := m.Get(ctx, name)\n', '\tinstalled, err := m.Get(ctx, candidate)\n')),
 dict(name='shape-existing-check-helper-args-swapped', expect='flagged(semver/argument-order)',
      edits=exist('semver.ComparePluginVersion(candidate, md.Version)', 'semver.ComparePluginVersion(md.Version, candidate)')),
 dict(name='shape-existing-check-helper-install-passes-wrong-version', expect='flagged(semver/argument-order)',
      edits=exist(call=EXIST_CALL.replace('newPluginMetadata.Version, overwrite)', 'newPluginMetadata.Name, overwrite)'))),
 dict(name='shape-existing-check-helper-nested-gate', expect='silent', edits=exist_nested()),
 dict(name='shape-existing-check-helper-nested-gate-downgrade', expect='flagged(table/decision)',
      edits=exist_nested('\tif comp < 0 {\n', '\tif comp < -1 {\n')),

 # ---- third pass
 # J. effects in helper frames
 dict(name='shape-copy-dispatch-method', expect='silent', edits=obj(),
      why='the choice between the two copy routines is a method of the source object (*sourceInfo).copyInto; the dir source is the field the constructor fills with its path parameter'),
 dict(name='shape-copy-dispatch-method-fields-reread', expect='silent', edits=obj_reread(),
      why='no local copy of the name: from.plugin is read again for the validation, the lookup, the clean-up and SysPath'),
 dict(name='shape-copy-dispatch-method-kind-inverted', expect='flagged(table/decision)', edits=obj('\tif s.single {\n', '\tif !s.single {\n')),
 dict(name='shape-copy-dispatch-method-kind-flag-lost', expect='flagged(table/decision)', edits=obj('\treturn &sourceInfo{dir: p, file: p, plugin: name, single: true}, nil\n', '\treturn &sourceInfo{dir: p, file: p, plugin: name}, nil\n')),
 dict(name='shape-copy-dispatch-method-error-dropped', expect='flagged(order/success-only-after-copy)',
      edits=obj('\t\tif err := file.CopyToDir(s.file, dst); err != nil {\n\t\t\treturn fmt.Errorf("failed to copy plugin executable file from %s to %s: %w", s.file, dst, err)\n\t\t}\n\t\treturn nil\n', '\t\t_ = file.CopyToDir(s.file, dst)\n\t\treturn nil\n')),
 dict(name='shape-copy-dispatch-method-install-ignores-error', expect='flagged(order/success-only-after-copy)',
      edits=obj(copy_call='\t_ = from.copyInto(pluginDirPath)\n')),
 dict(name='shape-copy-dispatch-method-before-cleanup', expect='flagged(table/decision)',
      edits=obj(copy_call='\t_ = pluginDirPath\n', extra=[(M, '\t// clean up before installation, this guarantees idempotent for install\n', '\tif dst, err := m.pluginFS.SysPath(pluginName); err == nil {\n\t\tif err := from.copyInto(dst); err != nil {\n\t\t\treturn nil, nil, err\n\t\t}\n\t}\n\t// clean up before installation, this guarantees idempotent for install\n')])),
 dict(name='shape-copy-dispatch-method-cleanup-error-ignored', expect='flagged(order/copy-after-cleanup)',
      edits=obj(extra=[(M, CLEAN_OLD, '\t_ = m.Uninstall(ctx, pluginName)\n')])),
 dict(name='shape-copy-dispatch-method-copies-parent-directory', expect='flagged(order/copy-after-cleanup)',
      edits=obj('\tif err := file.CopyDirToDir(s.dir, dst); err != nil {\n', '\tif err := file.CopyDirToDir(filepath.Dir(s.dir), dst); err != nil {\n')),
 dict(name='shape-copy-dispatch-method-constructor-other-dir', expect='flagged(order/copy-after-cleanup)',
      edits=obj('\t\treturn &sourceInfo{dir: p, file: exe, plugin: name}, nil\n', '\t\treturn &sourceInfo{dir: filepath.Dir(exe), file: exe, plugin: name}, nil\n'),
      why='the directory the constructor records is not the source path on every exit'),
 dict(name='shape-copy-dispatch-method-other-destination', expect='flagged(order/copy-after-cleanup)',
      edits=obj(copy_call='\tif err := from.copyInto(filepath.Dir(pluginDirPath)); err != nil {\n\t\treturn nil, nil, err\n\t}\n'),
      why='the files land in the plugin root, not in the directory of the plugin that was cleaned'),
 dict(name='shape-copy-dispatch-method-name-rewritten', expect='flagged(gates/same-object-same-name)',
      edits=obj_reread(extra=[(M, '\t// check plugin existence and get existing plugin metadata\n', '\tfrom.plugin = newPluginMetadata.Description\n\t// check plugin existence and get existing plugin metadata\n')]),
      why='the name field of the shared object is written after it was validated: the plugin that is removed and replaced is another one'),
 dict(name='shape-copy-dispatch-method-name-rewritten-by-helper', expect='flagged(gates/same-object-same-name)',
      edits=obj_reread('\tif s.single {\n', '\ts.plugin = filepath.Base(dst)\n\tif s.single {\n')),
 dict(name='shape-copy-dispatch-method-downgrade-allowed', expect='flagged(table/decision)',
      edits=obj(extra=[(M, '\t\t\tcase comp < 0:', '\t\t\tcase comp < -1:')])),
 dict(name='shape-copy-dispatch-function', expect='silent', edits=copyfn(),
      why='copyPluginFiles(dst, single, exe, dir): a switch, one error local; the kind travels as a bool parameter'),
 dict(name='shape-copy-dispatch-function-kind-negated-at-call', expect='flagged(table/decision)',
      edits=copyfn(call=COPY_CALL_FN.replace('pluginDirPath, installFromNonDir,', 'pluginDirPath, !installFromNonDir,'))),
 dict(name='shape-copy-dispatch-function-sources-swapped', expect='flagged(order/copy-after-cleanup)',
      edits=copyfn(call=COPY_CALL_FN.replace('pluginExecutableFile, installOpts.PluginPath)', 'installOpts.PluginPath, filepath.Dir(pluginExecutableFile))'))),
 dict(name='shape-copy-dispatch-function-error-lost', expect='flagged(order/success-only-after-copy)',
      edits=copyfn('\tif err != nil {\n\t\treturn fmt.Errorf("failed to copy plugin files to %s: %w", dst, err)\n\t}\n', '\t_ = err\n')),
 dict(name='shape-cleanup-wrapper', expect='silent', edits=cleanwrap(),
      why='the clean-up sits in a wrapper that answers nil exactly after Uninstall returned nil or not-exist'),
 dict(name='shape-cleanup-wrapper-tolerates-everything', expect='flagged(order/copy-after-cleanup)',
      edits=cleanwrap('\tif err := m.Uninstall(ctx, name); err != nil && !errors.Is(err, os.ErrNotExist) {\n\t\treturn fmt.Errorf("failed to clean up plugin %s before installation: %w", name, err)\n\t}\n', '\t_ = m.Uninstall(ctx, name)\n')),
 dict(name='shape-cleanup-wrapper-result-ignored', expect='flagged(order/copy-after-cleanup)',
      edits=[(M, CLEAN_OLD, '\t_ = m.clearInstalled(ctx, pluginName)\n'), (M, UNINSTALL_DECL, CLEAN_HELPER_WRAP + UNINSTALL_DECL)]),
 dict(name='shape-cleanup-wrapper-other-name', expect='flagged(gates/cleanup)',
      edits=[(M, CLEAN_OLD, CLEAN_CALL_WRAP.replace('m.clearInstalled(ctx, pluginName)', 'm.clearInstalled(ctx, filepath.Base(pluginExecutableFile))')), (M, UNINSTALL_DECL, CLEAN_HELPER_WRAP + UNINSTALL_DECL)]),
 dict(name='shape-cleanup-wrapper-and-copy-dispatch', expect='silent', edits=cleanwrap() + copyfn()[:1] + [(M, 'func (m *CLIManager) clearInstalled(', COPY_HELPER_FN + 'func (m *CLIManager) clearInstalled(')],
      why='the clean-up in one helper, the copies in another: the order is decided in Install on the two helper calls'),
 dict(name='shape-replace-files-helper', expect='silent', edits=replacefiles(),
      why='clean-up, SysPath and both copies in one helper: the order rules are decided in that frame'),
 dict(name='shape-replace-files-helper-copy-first', expect='flagged(table/decision)',
      edits=replacefiles('\tif err := m.Uninstall(ctx, name); err != nil {\n\t\tif !errors.Is(err, os.ErrNotExist) {\n\t\t\treturn fmt.Errorf("failed to clean up plugin %s before installation: %w", name, err)\n\t\t}\n\t}\n\tdst, err := m.pluginFS.SysPath(name)\n\tif err != nil {\n\t\treturn fmt.Errorf("failed to get the system path of plugin %s: %w", name, err)\n\t}\n',
                         '\tdst, err := m.pluginFS.SysPath(name)\n\tif err != nil {\n\t\treturn fmt.Errorf("failed to get the system path of plugin %s: %w", name, err)\n\t}\n\tif !single {\n\t\tif err := m.Uninstall(ctx, name); err != nil && !errors.Is(err, os.ErrNotExist) {\n\t\t\treturn err\n\t\t}\n\t}\n'),
      why='a single-file source is copied over the installed plugin without removing it first'),
 dict(name='shape-replace-files-helper-cleanup-error-ignored', expect='flagged(order/copy-after-cleanup)',
      edits=replacefiles('\t\tif !errors.Is(err, os.ErrNotExist) {\n\t\t\treturn fmt.Errorf("failed to clean up plugin %s before installation: %w", name, err)\n\t\t}\n', '\t\t_ = err\n')),
 dict(name='shape-replace-files-helper-before-version-check', expect='flagged(table/decision)',
      edits=[(M, REPLACE_OLD, ''), (M, '\t// check plugin existence and get existing plugin metadata\n', REPLACE_CALL + '\t// check plugin existence and get existing plugin metadata\n'), (M, UNINSTALL_DECL, REPLACE_HELPER + UNINSTALL_DECL)]),
 dict(name='shape-replace-files-helper-kind-inverted', expect='flagged(table/decision)', edits=replacefiles('\tif single {\n', '\tif !single {\n')),
 # K. candidates as records
 dict(name='shape-candidate-records', expect='silent', edits=rec(),
      why='(path, name) records: the executable behind a pointer that is nil until one is found, all well-named files in a list of records; the fallback returns the fields of the one listed record'),
 dict(name='shape-candidate-records-list-of-pointers', expect='silent', edits=[(M, WALK_OLD, WALK_REC_PTRS)],
      why='the list holds pointers, the record is filled field by field, the found record is copied into a local before it is returned'),
 dict(name='shape-candidate-records-closure', expect='silent', edits=[(M, WALK_OLD, WALK_REC_CLOSURE)],
      why='the same with a function literal: pointer and list are captured variables, two separate records per entry'),
 dict(name='shape-candidate-records-second-executable-wins', expect='flagged(discovery/pair-from-same-entry)',
      edits=rec(('\tif s.exe != nil {\n\t\treturn errors.New("found more than one plugin executable files")\n\t}\n', ''))),
 dict(name='shape-candidate-records-found-mark-preset', expect='flagged(discovery/pair-from-same-entry)',
      edits=rec(('\tscan := &dirScan{root: path}\n', '\tscan := &dirScan{root: path, exe: &namedFile{file: path}}\n')),
      why='the pointer is not nil when the walk starts: the record returned as found need not come from the walk'),
 dict(name='shape-candidate-records-name-of-previous-entry', expect='flagged(discovery/pair-from-same-entry)',
      edits=rec(('\tentry := namedFile{file: p, plugin: name}\n', '\tentry := namedFile{file: p, plugin: s.last}\n\ts.last = name\n'), ('\tnamed []namedFile\n}', '\tnamed []namedFile\n\tlast  string\n}'))),
 dict(name='shape-candidate-records-path-of-other-file', expect='flagged(discovery/pair-from-same-entry)',
      edits=rec(('\tentry := namedFile{file: p, plugin: name}\n', '\tentry := namedFile{file: filepath.Join(s.root, "notation-"+name), plugin: name}\n'))),
 dict(name='shape-candidate-records-record-rewritten-later', expect='flagged(discovery/pair-from-same-entry)',
      edits=rec(('\tif s.exe != nil {\n\t\treturn errors.New("found more than one plugin executable files")\n\t}\n', '\tif s.exe != nil {\n\t\ts.exe.plugin = name\n\t\treturn nil\n\t}\n')),
      why='a later executable overwrites the name in the record of the first: the pair no longer comes from one entry'),
 dict(name='shape-candidate-records-fallback-with-several', expect='flagged(discovery/fallback-pair)',
      edits=rec(('\tif len(scan.named) != 1 {\n', '\tif len(scan.named) < 1 {\n'))),
 dict(name='shape-candidate-records-fallback-beside-executable', expect='flagged(discovery/fallback-pair)',
      edits=rec(('\tif hit := scan.exe; hit != nil {\n\t\treturn hit.file, hit.plugin, nil\n\t}\n', '\tif hit := scan.exe; hit != nil && len(scan.named) != 1 {\n\t\treturn hit.file, hit.plugin, nil\n\t}\n')),
      why='with exactly one well-named file the fallback runs even when that file is the executable that was found'),
 dict(name='shape-candidate-records-fallback-name-of-second', expect='flagged(discovery/fallback-pair)',
      edits=rec(('\treturn only.file, only.plugin, nil\n', '\treturn only.file, scan.named[len(scan.named)-1].plugin, nil\n'))),
 dict(name='shape-candidate-records-listed-before-name-check', expect='flagged(discovery/fallback-pair)',
      edits=rec(('\tname, err := parsePluginName(d.Name())\n\tif err != nil {\n\t\treturn nil\n\t}\n\tentry := namedFile{file: p, plugin: name}\n\ts.named = append(s.named, entry)\n', '\tname, err := parsePluginName(d.Name())\n\tentry := namedFile{file: p, plugin: name}\n\ts.named = append(s.named, entry)\n\tif err != nil {\n\t\treturn nil\n\t}\n')),
      why='files whose name does not parse are listed too: the fallback may return one of them with an empty name'),
 dict(name='shape-candidate-records-list-edited-after-walk', expect='flagged(discovery/fallback-pair)',
      edits=rec(('\tonly := scan.named[0]\n', '\tscan.named[0].plugin = filepath.Base(path)\n\tonly := scan.named[0]\n'))),
 dict(name='shape-candidate-records-setexecutable-unchecked', expect='flagged(discovery/fallback-pair)',
      edits=rec(('\tif err := setExecutable(only.file); err != nil {\n\t\treturn "", "", fmt.Errorf("no plugin executable file was found: %w", err)\n\t}\n', '\t_ = setExecutable(only.file)\n'))),
 dict(name='shape-candidate-records-symlink-candidates', expect='flagged(discovery/regular-files-only)',
      edits=rec(('\tif !info.Mode().IsRegular() {\n', '\tif info.Mode().IsDir() {\n'))),
 dict(name='shape-candidate-records-F14', expect='flagged(discovery/skip-sub-directories)',
      edits=rec(('\tif d.IsDir() && p != s.root {\n', '\tif d.IsDir() && d.Name() != filepath.Base(s.root) {\n'))),
 dict(name='shape-candidate-records-closure-second-executable-wins', expect='flagged(discovery/pair-from-same-entry)',
      edits=[(M, WALK_OLD, rep(WALK_REC_CLOSURE, '\t\t\tif exe != nil {\n\t\t\t\treturn errors.New("found more than one plugin executable files")\n\t\t\t}\n', ''))]),
 dict(name='shape-candidate-records-closure-fields-swapped', expect='flagged(discovery/pair-from-same-entry)',
      edits=[(M, WALK_OLD, rep(WALK_REC_CLOSURE, '\t\t\texe = &namedFile{plugin: name, file: p}\n', '\t\t\texe = &namedFile{plugin: p, file: name}\n'))]),

 # further members of the classes
 dict(name='shape-copy-dispatch-narrowed-fields', expect='silent', edits=narrow(),
      why='the source object by value; the dispatch helper receives from.single and from.file narrowed at the call'),
 dict(name='shape-copy-dispatch-narrowed-fields-negated', expect='flagged(table/decision)', edits=narrow(call=COPY_CALL_NARROW.replace('from.single', '!from.single'))),
 dict(name='shape-place-files-helper', expect='silent', edits=place(),
      why='SysPath and the copies in a helper with a named error result and one error local; the clean-up stays in Install'),
 dict(name='shape-place-files-helper-kind-inverted', expect='flagged(table/decision)', edits=place('\tif !single {\n', '\tif single {\n')),
 dict(name='shape-place-files-helper-error-swallowed', expect='flagged(order/success-only-after-copy)',
      edits=place('\tif err == nil {\n\t\treturn nil\n\t}\n\treturn fmt.Errorf("failed to copy plugin files to %s: %w", dst, err)\n', '\treturn nil\n')),
 dict(name='shape-place-files-helper-other-plugin', expect='flagged(gates/copy)',
      edits=place(call=PLACE_CALL.replace('m.placeFiles(pluginName,', 'm.placeFiles(newPluginMetadata.Description,')),
      why='the files are copied into the directory of another name than the one that was validated and cleaned'),
 dict(name='shape-place-files-helper-before-cleanup', expect='flagged(table/decision)',
      edits=[(M, '\t// core process\n' + SYSPATH_OLD + COPY_OLD, ''), (M, '\t// clean up before installation, this guarantees idempotent for install\n', PLACE_CALL + '\t// clean up before installation, this guarantees idempotent for install\n'), (M, UNINSTALL_DECL, PLACE_HELPER + UNINSTALL_DECL)]),
 dict(name='shape-candidate-records-element-by-address', expect='silent', edits=[(M, WALK_OLD, WALK_REC_RANGE)],
      why='the fallback reads the fields through the address of element 0; the found record is read through the cell twice'),
 # ---- fourth pass ------------------------------------------------------------------------------------------------
 # L. the source record travels BY VALUE: returned by value, held in a local, the copy dispatch is a method with a value receiver
 dict(name='shape4-value-record-copy-method', expect='silent', edits=objv(),
      why='the record is a value all the way: the method reads its own never-written copy of what Install passed; a copy cannot be changed by anybody'),
 dict(name='shape4-value-record-copy-function-other-order', expect='silent',
      edits=objv('func (s sourceInfo) copyInto(dst string) error {', 'func copyInto(dst string, s sourceInfo) error {', copy_call=COPY_CALL_OBJ.replace('from.copyInto(pluginDirPath)', 'copyInto(pluginDirPath, from)')),
      why='the same as a plain function with the record as second parameter'),
 dict(name='shape4-value-record-two-hops', expect='silent',
      edits=objv('func (s sourceInfo) copyInto(dst string) error {', 'func (s sourceInfo) placeInto(dst string) error {\n\tif err := s.copyInto(dst); err != nil {\n\t\treturn err\n\t}\n\treturn nil\n}\n\nfunc (s sourceInfo) copyInto(dst string) error {', copy_call=COPY_CALL_OBJ.replace('from.copyInto(', 'from.placeInto(')),
      why='the value is handed on by value once more'),
 dict(name='shape4-value-record-kind-inverted', expect='flagged(table/decision)', edits=objv('\tif s.single {\n', '\tif !s.single {\n')),
 dict(name='shape4-value-record-method-edits-its-copy', expect='flagged(table/decision)',
      edits=objv('\tif s.single {\n', '\ts.single = s.file == s.dir\n\tif s.single {\n'),
      why='the method writes its copy before it reads it: what it reads is no longer what Install passed'),
 dict(name='shape4-value-record-dir-of-other-place', expect='flagged(order/copy-after-cleanup)',
      edits=objv('\t\treturn sourceInfo{dir: p, file: exe, plugin: name}, nil\n', '\t\treturn sourceInfo{dir: filepath.Dir(exe), file: exe, plugin: name}, nil\n'),
      why='the directory that is copied is not the source path that was given'),
 dict(name='shape4-value-record-zero-record-with-nil-error', expect='flagged(order/copy-after-cleanup)',
      edits=objv('\t\treturn sourceInfo{}, fmt.Errorf("input file %s is not executable", base)\n', '\t\treturn sourceInfo{}, nil\n'),
      why='an exit hands back the empty record as a success: its dir field is not the source path'),
 dict(name='shape4-value-record-local-reassigned', expect='flagged(table/decision)',
      edits=objv(extra=[(M, '\t// core process\n', '\tif overwrite {\n\t\tfrom = sourceInfo{dir: from.dir, file: from.file, plugin: from.plugin, single: !from.single}\n\t}\n\t// core process\n')]),
      why='the local that holds the record is assigned again before the copy: the kind is no longer what the resolver said'),
 # M. the name is validated where it is produced (by the resolver, before it hands the name back); Install does not validate again
 dict(name='shape4-validated-by-resolver-pointer-record', expect='silent', edits=objval(),
      why='the resolver validates the name it found and only then stores it into the record it returns; Install reads it from there'),
 dict(name='shape4-validated-by-resolver-value-record', expect='silent', edits=objval(value=True),
      why='the same with the record by value'),
 dict(name='shape4-validated-by-resolver-plain-results', expect='silent',
      edits=res_four_validated(),
      why='four plain results; every nil-error exit of the resolver lies behind the validation of the name it returns'),
 dict(name='shape4-validated-by-resolver-one-exit-unvalidated', expect='flagged(gates/',
      edits=res_four_validated('\tif err == nil {\n\t\tif err := validatePluginName(name); err != nil {\n\t\t\treturn "", "", false, err\n\t\t}\n\t\treturn exe, name, false, nil\n\t}\n', '\tif err == nil {\n\t\treturn exe, name, false, nil\n\t}\n'),
      why='the directory exit of the resolver returns a name that was never validated'),
 dict(name='shape4-validated-by-resolver-other-value-validated', expect='flagged(gates/',
      edits=objval('\tif err := validatePluginName(name); err != nil {\n', '\tif err := validatePluginName(filepath.Base(p)); err != nil {\n'),
      why='the resolver validates something else than the name it stores'),
 dict(name='shape4-validated-by-resolver-stored-before-rewritten', expect='flagged(gates/',
      edits=objval('\tsrc.plugin = name\n\treturn src, nil\n', '\tsrc.plugin = name\n\tsrc.plugin = filepath.Base(p)\n\treturn src, nil\n'),
      why='the field is written twice: what the record holds at the return is not the validated value'),
 dict(name='shape4-validated-by-resolver-error-ignored-in-install', expect='flagged(gates/',
      edits=objval(extra=[(M, '\tfrom, err := locateSource(ctx, installOpts.PluginPath)\n\tif err != nil {\n\t\treturn nil, nil, err\n\t}\n', '\tfrom, err := locateSource(ctx, installOpts.PluginPath)\n\tif err != nil && from == nil {\n\t\treturn nil, nil, err\n\t}\n')], keep_nil=False),
      why='Install goes on with the record although the resolver reported an error (the resolver returns the record on its error exits too)'),
 # N. the recorded path (or name) is its own "found" mark
 dict(name='shape4-found-is-nonempty-path', expect='silent', edits=[(M, WALK_OLD, WALK_STRMARK)],
      why='`executableFile != ""` instead of a flag: the cell is empty when the walk starts, assigned only while empty, and a walk path below a root os.Stat accepted is never empty'),
 dict(name='shape4-found-is-nonempty-path-closure', expect='silent', edits=[(M, WALK_OLD, WALK_STRMARK_CLOSURE)],
      why='the same with a function literal and captured variables'),
 dict(name='shape4-found-is-nonempty-name', expect='silent', edits=[(M, WALK_OLD, rep(rep(WALK_STRMARK, '\tif s.executableFile != "" {\n\t\treturn errors.New', '\tif s.pluginName != "" {\n\t\treturn errors.New'), '\tif scan.executableFile != "" {\n', '\tif scan.pluginName != "" {\n'))],
      why='the parsed name as the mark: the name parser returns a non-empty rest on every success exit'),
 dict(name='shape4-found-mark-second-executable-wins', expect='flagged(discovery/pair-from-same-entry)',
      edits=[(M, WALK_OLD, rep(WALK_STRMARK, '\tif s.executableFile != "" {\n\t\treturn errors.New("found more than one plugin executable files")\n\t}\n', ''))]),
 dict(name='shape4-found-mark-preset', expect='flagged(discovery/pair-from-same-entry)',
      edits=[(M, WALK_OLD, rep(WALK_STRMARK, '\tscan := pluginDirScan{root: path}\n', '\tscan := pluginDirScan{root: path, executableFile: path}\n'))],
      why='the cell is not empty when the walk starts'),
 dict(name='shape4-found-mark-other-cell-tested', expect='flagged(discovery/pair-from-same-entry)',
      edits=[(M, WALK_OLD, rep(WALK_STRMARK, '\tif s.executableFile != "" {\n\t\treturn errors.New', '\tif s.root == "" {\n\t\treturn errors.New'))],
      why='the guard before the store tests another cell'),
 dict(name='shape4-found-mark-cleared-by-callback', expect='flagged(discovery/pair-from-same-entry)',
      edits=[(M, WALK_OLD, rep(WALK_STRMARK, '\tif !isExec {\n\t\treturn nil\n\t}\n', '\tif !isExec {\n\t\ts.executableFile = ""\n\t\treturn nil\n\t}\n'))],
      why='a later non-executable file clears the mark: a second executable is accepted'),
 dict(name='shape4-found-mark-fallback-beside-executable', expect='flagged(discovery/fallback-pair)',
      edits=[(M, WALK_OLD, rep(WALK_STRMARK, '\tif scan.executableFile != "" {\n', '\tif scan.executableFile != "" && len(scan.filesWithValidNameFormat) != 1 {\n'))],
      why='with exactly one well-named file the fallback runs although an executable was found'),
 dict(name='shape4-found-mark-walk-without-stat', expect='flagged(discovery/',
      edits=[(M, WALK_OLD, WALK_STRMARK), (M, '\tfi, err := os.Stat(path)\n\tif err != nil {\n\t\treturn "", "", err\n\t}\n\tif !fi.Mode().IsDir() {\n\t\treturn "", "", file.ErrNotDirectory\n\t}\n', '')],
      why='nothing says the walk root is not empty'),
 # O. fifth pass: the walk skeleton ("stat, walk, skip sub-directories, regular files only") in a helper that takes the
 #    per-entry action as a function value
 dict(name='shape5-walk-helper-action-closure', expect='silent', edits=via(),
      why='CopyDirToDir and parsePluginFromDir hand a function literal to one exported helper of the internal package; the helper is certified as a pure walk, the actions are judged as callbacks were'),
 dict(name='shape5-walk-helper-private-err-checked-swapped-args', expect='silent', edits=via_local(),
      why='private helper in the plugin package, action takes (entry, path), the callback tests the action error instead of returning the call, nested directory test'),
 dict(name='shape5-walk-helper-action-method-value', expect='silent', edits=via(m=WALK_VIA_METHOD),
      why='the action is a method value bound to a local scan-state object'),
 dict(name='shape5-walk-helper-enters-subdirs', expect='flagged(discovery/skip-sub-directories)',
      edits=via('\t\tif d.IsDir() && path != dir {\n\t\t\treturn fs.SkipDir\n\t\t}\n', '\t\tif d.IsDir() {\n\t\t\treturn nil\n\t\t}\n')),
 dict(name='shape5-walk-helper-F10-base-name', expect='flagged(discovery/skip-sub-directories)',
      edits=via('\t\tif d.IsDir() && path != dir {', '\t\tif d.IsDir() && d.Name() != filepath.Base(dir) {')),
 dict(name='shape5-walk-helper-hands-non-regular', expect='flagged(discovery/regular-files-only)',
      edits=via('\t\tif !info.Mode().IsRegular() {\n\t\t\treturn nil\n\t\t}\n', '\t\tif info.Mode().IsDir() {\n\t\t\treturn nil\n\t\t}\n'),
      why='symlinks reach both actions'),
 dict(name='shape5-walk-helper-hands-non-regular-copy', expect='flagged(copy/directory)',
      edits=via('\t\tif !info.Mode().IsRegular() {\n\t\t\treturn nil\n\t\t}\n', '\t\tif info.Mode().IsDir() {\n\t\t\treturn nil\n\t\t}\n')),
 dict(name='shape5-walk-helper-drops-action-error', expect='flagged(discovery/walk-callback)',
      edits=via('\t\treturn fn(path, d)\n', '\t\t_ = fn(path, d)\n\t\treturn nil\n'),
      why='a failed copy / a second executable no longer fails the walk'),
 dict(name='shape5-walk-helper-runs-action-outside-walk', expect='flagged(discovery/walk-callback)',
      edits=via('\tif !fi.Mode().IsDir() {\n\t\treturn ErrNotDirectory\n\t}\n\treturn filepath.WalkDir(dir,', '\tif !fi.Mode().IsDir() {\n\t\treturn fn(dir, fs.FileInfoToDirEntry(fi))\n\t}\n\treturn filepath.WalkDir(dir,'),
      why='a source that is a single file is handed to the action as if it were an entry of the walk'),
 dict(name='shape5-walk-helper-action-gets-root', expect='flagged(discovery/walk-callback)',
      edits=via('\t\treturn fn(path, d)\n', '\t\treturn fn(dir, d)\n')),
 dict(name='shape5-walk-helper-skipdir-at-non-regular', expect='flagged(discovery/skip-only-directories)',
      edits=via('\t\tif !info.Mode().IsRegular() {\n\t\t\treturn nil\n\t\t}\n', '\t\tif !info.Mode().IsRegular() {\n\t\t\treturn fs.SkipDir\n\t\t}\n'),
      why='seed C20-6 in the new shape: the files after a symlink are dropped silently'),
 dict(name='shape5-action-answers-skipall', expect='flagged(discovery/skip-only-directories)',
      edits=via('\t\tif !isExec {\n\t\t\treturn nil\n\t\t}\n', '\t\tif !isExec {\n\t\t\treturn fs.SkipAll\n\t\t}\n'),
      why='the walk ends at the first non-executable candidate: a later executable is never seen'),
 dict(name='shape5-action-second-executable-wins', expect='flagged(discovery/pair-from-same-entry)',
      edits=via('\t\tif foundPluginExecutableFile {\n\t\t\treturn errors.New("found more than one plugin executable files")\n\t\t}\n', '')),
 dict(name='shape5-action-name-from-other-entry', expect='flagged(discovery/pair-from-same-entry)',
      edits=via('\t\tpluginName = candidatePluginName\n\t\treturn nil\n', '\t\tpluginName = filepath.Base(path) + candidatePluginName[:0]\n\t\treturn nil\n'),
      why='the name comes from the directory, not from the executable entry'),
 dict(name='shape5-dircopy-action-drops-error', expect='flagged(copy/directory)',
      edits=via('\t\treturn CopyToDir(path, dst)\n\t})\n}\n\nfunc WalkRegularFiles', '\t\t_ = CopyToDir(path, dst)\n\t\treturn nil\n\t})\n}\n\nfunc WalkRegularFiles')),
 dict(name='shape5-dircopy-action-copies-some', expect='flagged(copy/directory)',
      edits=via('\t\treturn CopyToDir(path, dst)\n\t})\n}\n\nfunc WalkRegularFiles', '\t\tif strings.HasPrefix(filepath.Base(path), ".") {\n\t\t\treturn nil\n\t\t}\n\t\treturn CopyToDir(path, dst)\n\t})\n}\n\nfunc WalkRegularFiles'),
      why='hidden files are left out of the installed plugin directory'),
 dict(name='shape5-dircopy-action-copies-into-source', expect='flagged(copy/directory)',
      edits=via('\t\treturn CopyToDir(path, dst)\n\t})\n}\n\nfunc WalkRegularFiles', '\t\treturn CopyToDir(path, src)\n\t})\n}\n\nfunc WalkRegularFiles')),
 dict(name='shape5-private-helper-drops-action-error', expect='flagged(discovery/walk-callback)',
      edits=via_local('\t\t\tif err := visit(d, p); err != nil {\n\t\t\t\treturn err\n\t\t\t}\n', '\t\t\tif err := visit(d, p); err != nil {\n\t\t\t\treturn nil\n\t\t\t}\n')),
 dict(name='shape5-private-helper-walk-without-stat', expect='flagged(discovery/source-is-directory)',
      edits=via_local('\tst, err := os.Stat(root)\n\tif err != nil {\n\t\treturn err\n\t}\n\tif !st.Mode().IsDir() {\n\t\treturn file.ErrNotDirectory\n\t}\n', '')),
 # the clause behind seed C20-6 in the base shape (decided for what it says)
 dict(name='skipdir-at-non-regular-entry', file=F, expect='flagged(discovery/skip-only-directories)',
      find='\t\tif info.Mode().IsRegular() {\n\t\t\treturn CopyToDir(path, dst)\n\t\t}\n\t\treturn nil', replace='\t\tif info.Mode().IsRegular() {\n\t\t\treturn CopyToDir(path, dst)\n\t\t}\n\t\treturn fs.SkipDir',
      why='a symlink makes WalkDir skip the rest of the source directory'),
 dict(name='skipdir-at-misnamed-file', file=M, expect='flagged(discovery/skip-only-directories)',
      find='\t\t\t\t// file name does not follow the notation-{plugin-name} format,\n\t\t\t\t// continue\n\t\t\t\treturn nil', replace='\t\t\t\treturn fs.SkipDir'),
 dict(name='benign-skipdir-by-type-bits', file=F, expect='silent',
      find='\t\tif d.IsDir() && path != src {\n\t\t\treturn fs.SkipDir\n\t\t}\n', replace='\t\tif d.IsDir() && path != src {\n\t\t\tif d.Type().IsDir() {\n\t\t\t\treturn fs.SkipDir\n\t\t\t}\n\t\t\treturn filepath.SkipDir\n\t\t}\n'),
 # P. sixth pass (guard-mutation campaign): a guard whose condition got a further conjunct is still there, and what lies
 #    behind its edges is still right, but the guarded code is reached without it. Each guard: disabled (`false && (C)`),
 #    weakened by a conjunct built from what is in scope, and the same guard spelled differently (silent).
 # P1. "skip sub-directories" as a must-pass fact of the callback
 dict(name='gm-dircopy-skip-guard-disabled', file=F, expect='flagged(discovery/skip-sub-directories)',
      find='\t\tif d.IsDir() && path != src {', replace='\t\tif false && (d.IsDir() && path != src) {',
      why='files of sub-directories are copied flat into the plugin directory'),
 dict(name='gm-dircopy-skip-guard-extra-conjunct', file=F, expect='flagged(discovery/skip-sub-directories)',
      find='\t\tif d.IsDir() && path != src {', replace='\t\tif d.IsDir() && path != src && d.Name() != filepath.Base(dst) {',
      why='a sub-directory named like the destination is entered'),
 dict(name='gm-parser-skip-guard-disabled', file=M, expect='flagged(discovery/skip-sub-directories)',
      find='\t\tif d.IsDir() && p != path {', replace='\t\tif false && (d.IsDir() && p != path) {',
      why='F14 again: a nested executable is a candidate'),
 dict(name='gm-parser-skip-guard-extra-conjunct', file=M, expect='flagged(discovery/skip-sub-directories)',
      find='\t\tif d.IsDir() && p != path {', replace='\t\tif len(filesWithValidNameFormat) > 0 && d.IsDir() && p != path {',
      why='sub-directories are skipped only once a candidate was seen'),
 dict(name='gm-benign-parser-skip-as-switch', file=M, expect='silent',
      find='\t\tif d.IsDir() && p != path {\n\t\t\treturn fs.SkipDir\n\t\t}\n', replace='\t\tswitch {\n\t\tcase !d.IsDir():\n\t\tcase path == p:\n\t\tdefault:\n\t\t\treturn fs.SkipDir\n\t\t}\n',
      why='the same decision as a tagless switch, operands of the root comparison swapped'),
 dict(name='gm-benign-dircopy-skip-operands-swapped', file=F, expect='silent',
      find='\t\tif d.IsDir() && path != src {', replace='\t\tif src != path && d.IsDir() {'),
 # P2. "every regular entry is copied" asked from the entry of the callback
 dict(name='gm-dircopy-regular-guard-disabled', file=F, expect='flagged(copy/directory)',
      find='\t\tif info.Mode().IsRegular() {\n\t\t\treturn CopyToDir(path, dst)', replace='\t\tif false && (info.Mode().IsRegular()) {\n\t\t\treturn CopyToDir(path, dst)',
      why='nothing is copied and the directory copy reports success'),
 dict(name='gm-dircopy-regular-guard-extra-conjunct', file=F, expect='flagged(copy/directory)',
      find='\t\tif info.Mode().IsRegular() {\n\t\t\treturn CopyToDir(path, dst)', replace='\t\tif info.Mode().IsRegular() && info.Size() > 0 {\n\t\t\treturn CopyToDir(path, dst)',
      why='empty files of the source are missing in the plugin directory'),
 dict(name='gm-benign-dircopy-regular-as-switch', file=F, expect='silent',
      find='\t\tif info.Mode().IsRegular() {\n\t\t\treturn CopyToDir(path, dst)\n\t\t}\n\t\treturn nil', replace='\t\tswitch mode := info.Mode(); {\n\t\tcase !mode.IsRegular():\n\t\t\treturn nil\n\t\tdefault:\n\t\t\treturn CopyToDir(path, dst)\n\t\t}'),
 # P3. the error the walk hands to its callback
 dict(name='gm-dircopy-walk-error-guard-disabled', file=F, expect='flagged(discovery/walk-error-returned)',
      find='\t\tif err != nil {\n\t\t\treturn err\n\t\t}\n\t\t// skip sub-directories\n\t\tif d.IsDir() && path != src {', replace='\t\tif false && (err != nil) {\n\t\t\treturn err\n\t\t}\n\t\t// skip sub-directories\n\t\tif d.IsDir() && path != src {',
      why='a source directory that cannot be read is "copied" successfully'),
 dict(name='gm-dircopy-walk-error-extra-conjunct', file=F, expect='flagged(discovery/walk-error-returned)',
      find='\t\tif err != nil {\n\t\t\treturn err\n\t\t}\n\t\t// skip sub-directories\n\t\tif d.IsDir() && path != src {', replace='\t\tif err != nil && path != src {\n\t\t\treturn err\n\t\t}\n\t\t// skip sub-directories\n\t\tif d.IsDir() && path != src {',
      why='the error of reading the root itself is swallowed'),
 dict(name='gm-parser-walk-error-guard-disabled', file=M, expect='flagged(discovery/walk-error-returned)',
      find='\t\tif err != nil {\n\t\t\treturn err\n\t\t}\n\t\t// skip sub-directories\n\t\tif d.IsDir() && p != path {', replace='\t\tif false && (err != nil) {\n\t\t\treturn err\n\t\t}\n\t\t// skip sub-directories\n\t\tif d.IsDir() && p != path {'),
 dict(name='gm-parser-walk-error-extra-conjunct', file=M, expect='flagged(discovery/walk-error-returned)',
      find='\t\tif err != nil {\n\t\t\treturn err\n\t\t}\n\t\t// skip sub-directories\n\t\tif d.IsDir() && p != path {', replace='\t\tif err != nil && d == nil {\n\t\t\treturn err\n\t\t}\n\t\t// skip sub-directories\n\t\tif d.IsDir() && p != path {',
      why='the parser decides on a partial listing of the source'),
 dict(name='gm-benign-walk-error-respelled', expect='silent',
      edits=[(F, '\t\tif err != nil {\n\t\t\treturn err\n\t\t}\n\t\t// skip sub-directories\n\t\tif d.IsDir() && path != src {', '\t\tswitch {\n\t\tcase nil != err:\n\t\t\treturn fmt.Errorf("failed to walk %s: %w", path, err)\n\t\t}\n\t\t// skip sub-directories\n\t\tif d.IsDir() && path != src {'),
             (M, '\t\tif err != nil {\n\t\t\treturn err\n\t\t}\n\t\t// skip sub-directories\n\t\tif d.IsDir() && p != path {', '\t\tif err == nil {\n\t\t\tif d == nil {\n\t\t\t\treturn errors.New("no entry")\n\t\t\t}\n\t\t} else {\n\t\t\treturn err\n\t\t}\n\t\t// skip sub-directories\n\t\tif d.IsDir() && p != path {')],
      why='the same test as a switch with swapped operands and a wrapped error; as an if/else on `err == nil`'),
 # P4. error discipline of the copy routines
 dict(name='gm-copyfile-stat-error-guard-disabled', file=F, expect='flagged(copy/errors-checked)',
      find='\tsourceFileInfo, err := os.Stat(src)\n\tif err != nil {', replace='\tsourceFileInfo, err := os.Stat(src)\n\tif false && (err != nil) {'),
 dict(name='gm-copyfile-open-error-guard-disabled', file=F, expect='flagged(copy/errors-checked)',
      find='\tsource, err := os.Open(src)\n\tif err != nil {', replace='\tsource, err := os.Open(src)\n\tif false && (err != nil) {'),
 dict(name='gm-copyfile-mkdir-error-guard-disabled', file=F, expect='flagged(copy/errors-checked)',
      find='\tif err := os.MkdirAll(dst, 0755); err != nil {', replace='\tif err := os.MkdirAll(dst, 0755); false && (err != nil) {'),
 dict(name='gm-copyfile-create-error-guard-disabled', file=F, expect='flagged(copy/errors-checked)',
      find='\tdestination, err := os.Create(dstFile)\n\tif err != nil {', replace='\tdestination, err := os.Create(dstFile)\n\tif false && (err != nil) {'),
 dict(name='gm-copyfile-chmod-error-guard-disabled', file=F, expect='flagged(copy/errors-checked)',
      find='\terr = destination.Chmod(sourceFileInfo.Mode() & os.FileMode(0755))\n\tif err != nil {', replace='\terr = destination.Chmod(sourceFileInfo.Mode() & os.FileMode(0755))\n\tif false && (err != nil) {',
      why='the installed executable keeps the default mode (not executable) and the copy reports success'),
 dict(name='gm-copyfile-chmod-error-extra-conjunct', file=F, expect='flagged(copy/errors-checked)',
      find='\terr = destination.Chmod(sourceFileInfo.Mode() & os.FileMode(0755))\n\tif err != nil {', replace='\terr = destination.Chmod(sourceFileInfo.Mode() & os.FileMode(0755))\n\tif err != nil && !errors.Is(err, os.ErrPermission) {',
      why='a refused chmod is tolerated'),
 dict(name='gm-copyfile-chmod-error-overwritten', file=F, expect='flagged(copy/errors-checked)',
      find='\terr = destination.Chmod(sourceFileInfo.Mode() & os.FileMode(0755))\n\tif err != nil {\n\t\treturn err\n\t}\n', replace='\terr = destination.Chmod(sourceFileInfo.Mode() & os.FileMode(0755))\n',
      why='the error is overwritten by the next step before anybody looked at it'),
 dict(name='gm-copydir-stat-error-guard-disabled', file=F, expect='flagged(copy/errors-checked)',
      find='\tfi, err := os.Stat(src)\n\tif err != nil {', replace='\tfi, err := os.Stat(src)\n\tif false && (err != nil) {'),
 dict(name='gm-copydir-stat-error-extra-conjunct', file=F, expect='flagged(copy/errors-checked)',
      find='\tfi, err := os.Stat(src)\n\tif err != nil {', replace='\tfi, err := os.Stat(src)\n\tif err != nil && src != dst {'),
 dict(name='gm-copydir-info-error-guard-disabled', file=F, expect='flagged(copy/errors-checked)',
      find='\t\tinfo, err := d.Info()\n\t\tif err != nil {\n\t\t\treturn err\n\t\t}\n\t\t// only copy regular files', replace='\t\tinfo, err := d.Info()\n\t\tif false && (err != nil) {\n\t\t\treturn err\n\t\t}\n\t\t// only copy regular files'),
 dict(name='gm-copydir-info-error-extra-conjunct', file=F, expect='flagged(copy/errors-checked)',
      find='\t\tinfo, err := d.Info()\n\t\tif err != nil {\n\t\t\treturn err\n\t\t}\n\t\t// only copy regular files', replace='\t\tinfo, err := d.Info()\n\t\tif err != nil && !errors.Is(err, fs.ErrNotExist) {\n\t\t\treturn err\n\t\t}\n\t\t// only copy regular files',
      why='an entry that vanished during the walk is tolerated (and its nil Info is used)'),
 dict(name='gm-benign-copyfile-errors-respelled', file=F, expect='silent',
      find='\terr = destination.Chmod(sourceFileInfo.Mode() & os.FileMode(0755))\n\tif err != nil {\n\t\treturn err\n\t}\n\t_, err = io.Copy(destination, source)\n\treturn err\n', replace='\tif err := destination.Chmod(sourceFileInfo.Mode() & os.FileMode(0755)); nil != err {\n\t\treturn fmt.Errorf("failed to set the mode of %s: %w", dstFile, err)\n\t}\n\tswitch _, err := io.Copy(destination, source); {\n\tcase err != nil:\n\t\treturn err\n\t}\n\treturn nil\n',
      why='each error tested where it arises: if with initialiser and swapped operands, a switch, wrapped error, final `return nil`'),
 dict(name='gm-benign-copyfile-one-error-variable', file=F, expect='silent',
      find='\tif err := os.MkdirAll(dst, 0755); err != nil {\n\t\treturn err\n\t}\n', replace='\tif err = os.MkdirAll(dst, 0755); err != nil {\n\t\treturn err\n\t}\n',
      why='all steps share one error variable'),
]
